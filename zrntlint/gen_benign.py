#!/usr/bin/env python3
"""Source of the benign corpus (benign.json): behaviour-preserving edits of /repo's sources. No rule may react."""
import json
M = []
def b(id, file, old, new, note="", nth=0, all=False, re=False):
    d = {"id": id, "rule": "", "file": file, "old": old, "new": new, "expect": "", "note": note}
    if nth: d["nth"] = nth
    if all: d["all"] = True
    if re: d["re"] = True
    M.append(d)
B = "eth2/beacon/"; F = "eth2/forkchoice/"
# ---- commuted / mirrored comparisons
b("cm-exit-churn", B+"phase0/voluntary_exit.go", "if exitQueueEndChurn >= churnLimit {", "if churnLimit <= exitQueueEndChurn {", "a >= b  ==  b <= a")
b("cm-inactivity", B+"altair/inactivity_scores.go", "isInactivityLeak := finalityDelay > spec.MIN_EPOCHS_TO_INACTIVITY_PENALTY", "isInactivityLeak := spec.MIN_EPOCHS_TO_INACTIVITY_PENALTY < finalityDelay")
b("cm-withdrawals-len", B+"capella/transition.go", "if len(expectedWithdrawals) != len(withdrawals) {", "if len(withdrawals) != len(expectedWithdrawals) {")
b("cm-plus-one", B+"phase0/attestation.go", "currentSlot <= data.Slot+spec.SLOTS_PER_EPOCH", "currentSlot < data.Slot+spec.SLOTS_PER_EPOCH+1", "a <= b  ==  a < b+1")
b("cm-gossip-target", "eth2/gossipval/attestation.go", "if att.Data.Target.Epoch != attEpoch {", "if attEpoch != att.Data.Target.Epoch {")
b("cm-prune", "eth2/pool/attestations.go", "\tfor k := range ap.individual {\n\t\tif k.Epoch < min {", "\tfor k := range ap.individual {\n\t\tif min > k.Epoch {")
b("cm-committee-cap", B+"common/shuffling.go", "if uint64(spec.MAX_COMMITTEES_PER_SLOT) < committeesPerSlot {", "if committeesPerSlot > uint64(spec.MAX_COMMITTEES_PER_SLOT) {")
b("cm-active-swap", B+"common/flat.go", "return v.ActivationEpoch <= epoch && epoch < v.ExitEpoch", "return epoch < v.ExitEpoch && v.ActivationEpoch <= epoch", "conjuncts swapped")
b("cm-viable-swap", F+"proto/proto_array.go", "\treturn (node.JustifiedEpoch == pr.justifiedEpoch || pr.justifiedEpoch == common.GENESIS_EPOCH) &&\n\t\t(node.FinalizedEpoch == pr.finalizedEpoch || pr.finalizedEpoch == common.GENESIS_EPOCH)", "\treturn (pr.finalizedEpoch == common.GENESIS_EPOCH || node.FinalizedEpoch == pr.finalizedEpoch) &&\n\t\t(pr.justifiedEpoch == common.GENESIS_EPOCH || node.JustifiedEpoch == pr.justifiedEpoch)")
b("cm-pow2", "eth2/util/math/math_util.go", "return (n > 0) && (n&(n-1) == 0)", "return n != 0 && n&(n-1) == 0")
b("cm-merkle-bit", "eth2/util/merkle/crypto_util.go", "if (index>>i)&1 == 1 {", "if (index>>i)&1 != 0 {")
# ---- commuted / regrouped arithmetic
b("fm-commute", B+"altair/sync_aggregate.go", "totalBaseRewards := baseRewardPerIncrement * totalActiveIncrements", "totalBaseRewards := totalActiveIncrements * baseRewardPerIncrement")
b("fm-time", B+"common/time.go", "return (Timestamp(slot) * spec.SECONDS_PER_SLOT) + genesisTime, nil", "return genesisTime + spec.SECONDS_PER_SLOT*Timestamp(slot), nil")
b("fm-mirror", B+"common/shuffle.go", "mirror := (pivot + 1) >> 1", "mirror := (1 + pivot) >> 1")
b("fm-extract-local", B+"altair/sync_aggregate.go", "\tproposerReward := participantReward * PROPOSER_WEIGHT / (WEIGHT_DENOMINATOR - PROPOSER_WEIGHT)", "\tnumer := participantReward * PROPOSER_WEIGHT\n\tproposerReward := numer / (WEIGHT_DENOMINATOR - PROPOSER_WEIGHT)", "a sub-expression moved into a local")
b("fm-incr", B+"phase0/registry.go", "endChurn += 1", "endChurn++", nth=1)
# ---- renames
b("rn-recv-pubkeycache", B+"common/validator_pubkeys.go", r"\bpc\b", "cache", "receiver renamed throughout the file", re=True)
b("rn-recv-protoarray", F+"proto/proto_array.go", r"\bpr\b", "arr", "receiver renamed throughout the file", re=True)
b("rn-recv-forkchoice", F+"forkchoice.go", r"\bfc\b", "fcw", "receiver renamed throughout the file", re=True)
b("rn-recv-epc", B+"common/epochs_context.go", r"\bepc\b", "ctxt", "receiver renamed throughout the file", re=True)
b("rn-local-churn", B+"phase0/voluntary_exit.go", r"\bchurnLimit\b", "limit", "local renamed", re=True)
b("rn-local-veff", B+"phase0/genesis.go", r"\bvEff\b", "effective", "local renamed", re=True)
b("rn-local-increments", B+"altair/attestation.go", r"\bincrements\b", "incs", "local renamed", re=True)
b("rn-local-pivot", B+"common/shuffle.go", r"\bpivot\b", "pv", "local renamed (comments too)", re=True)
b("rn-local-finality", B+"altair/inactivity_scores.go", r"\bfinalityDelay\b", "delay", "local renamed", re=True)
b("rn-local-expected", B+"capella/transition.go", r"\bexpectedWithdrawals\b", "expected", "local renamed", re=True)
# ---- messages, comments, unrelated additions
b("msg-reword", B+"phase0/voluntary_exit.go", "validator already exited", "the validator has already initiated an exit", "error text only", all=True)
b("add-func", B+"common/time.go", "func (spec *Spec) TimeToSlot(", "// Helper added by a refactoring, unused by the transition.\nfunc (spec *Spec) slotsPerDay() uint64 {\n\treturn 86400 / uint64(spec.SECONDS_PER_SLOT)\n}\n\nfunc (spec *Spec) TimeToSlot(", "an unrelated helper is added")
b("lit-reorder", B+"fork.go", "\t\t\t\tSlot:          benv.Slot,\n\t\t\t\tProposerIndex: benv.ProposerIndex,", "\t\t\t\tProposerIndex: benv.ProposerIndex,\n\t\t\t\tSlot:          benv.Slot,", "keyed literal fields reordered", nth=1)
b("stmt-reorder", B+"altair/sync_aggregate.go", "\ttotalActiveIncrements := epc.TotalActiveStake / spec.EFFECTIVE_BALANCE_INCREMENT\n\tbaseRewardPerIncrement := (spec.EFFECTIVE_BALANCE_INCREMENT * common.Gwei(spec.BASE_REWARD_FACTOR)) / epc.TotalActiveStakeSqRoot\n", "\tbaseRewardPerIncrement := (spec.EFFECTIVE_BALANCE_INCREMENT * common.Gwei(spec.BASE_REWARD_FACTOR)) / epc.TotalActiveStakeSqRoot\n\ttotalActiveIncrements := epc.TotalActiveStake / spec.EFFECTIVE_BALANCE_INCREMENT\n", "two independent definitions swapped")
b("paren", B+"phase0/deltas.go", "baseReward * prevEpochTargetStake / totalBalance", "(baseReward * prevEpochTargetStake) / totalBalance", "explicit parentheses")

# ---- sizes, codecs, configs
b("sz-commute", B+"common/general.go", "func (g *Checkpoint) FixedLength() uint64 {\n\treturn 8 + 32", "func (g *Checkpoint) FixedLength() uint64 {\n\treturn 32 + 8")
b("sz-withdrawal", B+"common/withdrawals.go", "return Uint64Type.TypeByteLength()*3 + Eth1AddressType.TypeByteLength()", "return Eth1AddressType.TypeByteLength() + 3*Uint64Type.TypeByteLength()", nth=1)
b("yaml-comment", "eth2/configs/yamls/presets/minimal/altair.yaml", "# 2**6 (= 64)\nMIN_SLASHING_PENALTY_QUOTIENT_ALTAIR: 64", "# 2**6 (= 64), see the altair spec\nMIN_SLASHING_PENALTY_QUOTIENT_ALTAIR: 64")
b("yaml-reorder", "eth2/configs/yamls/presets/minimal/altair.yaml", "# 2**6 (= 64)\nMIN_SLASHING_PENALTY_QUOTIENT_ALTAIR: 64\n# 2\nPROPORTIONAL_SLASHING_MULTIPLIER_ALTAIR: 2\n", "# 2\nPROPORTIONAL_SLASHING_MULTIPLIER_ALTAIR: 2\n# 2**6 (= 64)\nMIN_SLASHING_PENALTY_QUOTIENT_ALTAIR: 64\n")
# ---- signatures, errors, polls
b("bls-local-result", B+"phase0/deposit.go", "\t\tif !ignoreSignatureAndProof && !blsu.Verify(blsPub, signingRoot[:], sig) {", "\t\tpopOK := ignoreSignatureAndProof || blsu.Verify(blsPub, signingRoot[:], sig)\n\t\tif !popOK {", "verification result kept in a local")
b("err-wrap", B+"phase0/randao.go", "\tif err := ctx.Err(); err != nil {\n\t\treturn err\n\t}", "\tif err := ctx.Err(); err != nil {\n\t\treturn fmt.Errorf(\"randao: %w\", err)\n\t}", "error wrapped instead of returned bare", nth=1)
b("gossip-msg", "eth2/gossipval/attestation.go", "fmt.Errorf(\"attestation slot %d is epoch %d and does not match target %d\"", "fmt.Errorf(\"bad target: attestation slot %d is epoch %d, target says %d\"")
# ---- locks
b("lock-rename-field", F+"forkchoice.go", r"\bmu\b", "lock", "mutex field renamed throughout the file", re=True)
b("lock-explicit", "eth2/pool/attester_slashings.go", "\tasp.Lock()\n\tdefer asp.Unlock()\n", "\tasp.Lock()\n\tdefer func() { asp.Unlock() }()\n", "deferred unlock wrapped in a closure")

json.dump(M, open("benign.json", "w"), indent=1)
print(len(M), "benign edits")
