package main

import (
	"go/ast"
	"go/token"
)

// One normalisation of the loaded syntax, applied once after loading and before any rule looks: a tagless
//
//	switch { case A: X; case B, C: Y; default: Z }
//
// is rewritten in place as  if A { X } else if B || C { Y } else { Z }  — the same decision list (cases are tried in
// order, default last wherever it is written). Rules then see one spelling only. A switch is left alone when the
// rewriting would change its meaning: a `fallthrough`, or an unlabelled `break` that is not the last statement of
// its case (it leaves the switch; in the if-chain it would leave an enclosing loop). A trailing unlabelled `break` is a
// no-op in a switch and is dropped. Conditions and bodies are the original nodes, so type information is untouched.
func desugarSwitches(p *Prog) int {
	n := 0
	var rewriteList func(list []ast.Stmt)
	breaksSwitch := func(body []ast.Stmt) bool {
		// an unlabelled break (other than a trailing one) that targets the switch, or a fallthrough
		bad := false
		var walk func(node ast.Node, depth int)
		walk = func(node ast.Node, depth int) {
			ast.Inspect(node, func(k ast.Node) bool {
				if bad || k == nil {
					return false
				}
				switch x := k.(type) {
				case *ast.FuncLit:
					return false
				case *ast.ForStmt, *ast.RangeStmt, *ast.SwitchStmt, *ast.TypeSwitchStmt, *ast.SelectStmt:
					if k != node {
						return false // a break in there targets that statement
					}
				case *ast.BranchStmt:
					if x.Tok == token.FALLTHROUGH || (x.Tok == token.BREAK && x.Label == nil) {
						bad = true
					}
				}
				return true
			})
		}
		for i, st := range body {
			if br, ok := st.(*ast.BranchStmt); ok && i == len(body)-1 && br.Tok == token.BREAK && br.Label == nil {
				continue
			}
			walk(st, 0)
		}
		return bad
	}
	convert := func(sw *ast.SwitchStmt) ast.Stmt {
		if sw.Tag != nil || len(sw.Body.List) == 0 {
			return nil
		}
		var def *ast.CaseClause
		var cases []*ast.CaseClause
		for _, c := range sw.Body.List {
			cc, ok := c.(*ast.CaseClause)
			if !ok || breaksSwitch(cc.Body) {
				return nil
			}
			if cc.List == nil {
				def = cc
			} else {
				cases = append(cases, cc)
			}
		}
		if len(cases) == 0 {
			return nil
		}
		bodyOf := func(cc *ast.CaseClause) *ast.BlockStmt {
			body := cc.Body
			if k := len(body); k > 0 {
				if br, ok := body[k-1].(*ast.BranchStmt); ok && br.Tok == token.BREAK && br.Label == nil {
					body = body[:k-1]
				}
			}
			return &ast.BlockStmt{Lbrace: cc.Colon, List: body, Rbrace: cc.End()}
		}
		var head, cur *ast.IfStmt
		for _, cc := range cases {
			cond := cc.List[0]
			for _, e := range cc.List[1:] {
				cond = &ast.BinaryExpr{X: cond, Op: token.LOR, Y: e, OpPos: e.Pos()}
			}
			is := &ast.IfStmt{If: cc.Pos(), Cond: cond, Body: bodyOf(cc)}
			if head == nil {
				head = is
			} else {
				cur.Else = is
			}
			cur = is
		}
		if def != nil {
			cur.Else = bodyOf(def)
		}
		if sw.Init != nil {
			return &ast.BlockStmt{Lbrace: sw.Pos(), List: []ast.Stmt{sw.Init, head}, Rbrace: sw.End()}
		}
		return head
	}
	rewriteList = func(list []ast.Stmt) {
		for i, st := range list {
			target := st
			var lab *ast.LabeledStmt
			if l, ok := st.(*ast.LabeledStmt); ok {
				lab = l
				target = l.Stmt
			}
			if sw, ok := target.(*ast.SwitchStmt); ok {
				// a labelled switch may be the target of `break label` from inside: keep it
				if lab == nil {
					if repl := convert(sw); repl != nil {
						list[i] = repl
						n++
					}
				}
			}
		}
	}
	for _, pk := range p.Pkgs {
		for _, f := range pk.Syntax {
			// repeat until stable: rewritten bodies may contain further switches (handled by the same walk, since the
			// new if-chain's blocks are visited below)
			for round := 0; round < 4; round++ {
				before := n
				ast.Inspect(f, func(k ast.Node) bool {
					switch x := k.(type) {
					case *ast.BlockStmt:
						rewriteList(x.List)
					case *ast.CaseClause:
						rewriteList(x.Body)
					case *ast.CommClause:
						rewriteList(x.Body)
					}
					return true
				})
				if n == before {
					break
				}
			}
		}
	}
	return n
}
