package main

import (
	"go/ast"
	"go/token"
	"go/types"
)

// One normalisation of the loaded syntax, applied once after loading and before any rule looks: a tagless (or, on a
// variable or field path, tagged: the comparisons `tag == case` are then written out)
//
//	switch { case A: X; case B, C: Y; default: Z }
//
// is rewritten in place as  if A { X } else if B || C { Y } else { Z }  — the same decision list (cases are tried in
// order, default last wherever it is written). Rules then see one spelling only. A switch is left alone when the
// rewriting would change its meaning: a `fallthrough`, or an unlabelled `break` that is not the last statement of
// its case (it leaves the switch; in the if-chain it would leave an enclosing loop). A trailing unlabelled `break` is a
// no-op in a switch and is dropped. Conditions and bodies are the original nodes, so type information is untouched.
func desugarSwitches(p *Prog) int {
	n := 0
	var rewriteList func(list []ast.Stmt)
	breaksSwitch := func(body []ast.Stmt) bool {
		// an unlabelled break (other than a trailing one) that targets the switch, or a fallthrough
		bad := false
		var walk func(node ast.Node, depth int)
		walk = func(node ast.Node, depth int) {
			ast.Inspect(node, func(k ast.Node) bool {
				if bad || k == nil {
					return false
				}
				switch x := k.(type) {
				case *ast.FuncLit:
					return false
				case *ast.ForStmt, *ast.RangeStmt, *ast.SwitchStmt, *ast.TypeSwitchStmt, *ast.SelectStmt:
					if k != node {
						return false // a break in there targets that statement
					}
				case *ast.BranchStmt:
					if x.Tok == token.FALLTHROUGH || (x.Tok == token.BREAK && x.Label == nil) {
						bad = true
					}
				}
				return true
			})
		}
		for i, st := range body {
			if br, ok := st.(*ast.BranchStmt); ok && i == len(body)-1 && br.Tok == token.BREAK && br.Label == nil {
				continue
			}
			walk(st, 0)
		}
		return bad
	}
	var curInfo *types.Info
	// cloneTag: a copy of a side-effect-free tag expression (an identifier or a field path of one) that carries the
	// original's type information; nil for anything else
	var cloneTag func(e ast.Expr) ast.Expr
	cloneTag = func(e ast.Expr) ast.Expr {
		if curInfo == nil {
			return nil
		}
		switch x := e.(type) {
		case *ast.ParenExpr:
			return cloneTag(x.X)
		case *ast.Ident:
			c := &ast.Ident{NamePos: x.NamePos, Name: x.Name}
			if o := curInfo.Uses[x]; o != nil {
				curInfo.Uses[c] = o
			} else {
				return nil
			}
			if tv, ok := curInfo.Types[x]; ok {
				curInfo.Types[c] = tv
			}
			return c
		case *ast.SelectorExpr:
			base := cloneTag(x.X)
			if base == nil {
				return nil
			}
			sel := &ast.Ident{NamePos: x.Sel.NamePos, Name: x.Sel.Name}
			if o := curInfo.Uses[x.Sel]; o != nil {
				curInfo.Uses[sel] = o
			}
			c := &ast.SelectorExpr{X: base, Sel: sel}
			if s, ok := curInfo.Selections[x]; ok {
				curInfo.Selections[c] = s
			}
			if tv, ok := curInfo.Types[x]; ok {
				curInfo.Types[c] = tv
			}
			return c
		}
		return nil
	}
	convert := func(sw *ast.SwitchStmt) ast.Stmt {
		if len(sw.Body.List) == 0 {
			return nil
		}
		// a switch on a variable or field path, `switch v { case a, b: … }`, tests v == a || v == b in order: the same
		// decision list with the comparisons written out (case expressions are evaluated left to right, top to bottom,
		// until one is equal — as the || / else-if chain does)
		tagged := sw.Tag != nil
		if tagged && cloneTag(sw.Tag) == nil {
			return nil
		}
		if tagged {
			// only numeric tags (slots, epochs, counters): a switch over names or kinds (fork names, verdicts) is a table
			// that the registry rules read as one
			b, ok := curInfo.TypeOf(sw.Tag).Underlying().(*types.Basic)
			if !ok || b.Info()&types.IsInteger == 0 {
				return nil
			}
			// and only when a case is not a constant: a switch over constants stays the table it is
			computed := false
			for _, c := range sw.Body.List {
				if cc, ok := c.(*ast.CaseClause); ok {
					for _, e := range cc.List {
						if tv, ok := curInfo.Types[e]; !ok || tv.Value == nil {
							// (slot+1, or another variable / field the tag is compared with: lookupIndex,
							// node.BestDescendant — a comparison of two run-time values, not a row of a table of constants)
							computed = true
						}
					}
				}
			}
			if !computed {
				return nil
			}
		}
		var def *ast.CaseClause
		var cases []*ast.CaseClause
		for _, c := range sw.Body.List {
			cc, ok := c.(*ast.CaseClause)
			if !ok || breaksSwitch(cc.Body) {
				return nil
			}
			if cc.List == nil {
				def = cc
			} else {
				cases = append(cases, cc)
			}
		}
		if len(cases) == 0 {
			return nil
		}
		bodyOf := func(cc *ast.CaseClause) *ast.BlockStmt {
			body := cc.Body
			if k := len(body); k > 0 {
				if br, ok := body[k-1].(*ast.BranchStmt); ok && br.Tok == token.BREAK && br.Label == nil {
					body = body[:k-1]
				}
			}
			return &ast.BlockStmt{Lbrace: cc.Colon, List: body, Rbrace: cc.End()}
		}
		var head, cur *ast.IfStmt
		boolTV := types.TypeAndValue{Type: types.Typ[types.Bool]}
		test := func(e ast.Expr) ast.Expr {
			if !tagged {
				return e
			}
			be := &ast.BinaryExpr{X: cloneTag(sw.Tag), Op: token.EQL, Y: e, OpPos: e.Pos()}
			curInfo.Types[be] = boolTV
			return be
		}
		for _, cc := range cases {
			cond := test(cc.List[0])
			for _, e := range cc.List[1:] {
				cond = &ast.BinaryExpr{X: cond, Op: token.LOR, Y: test(e), OpPos: e.Pos()}
				if tagged {
					curInfo.Types[cond] = boolTV
				}
			}
			is := &ast.IfStmt{If: cc.Pos(), Cond: cond, Body: bodyOf(cc)}
			if head == nil {
				head = is
			} else {
				cur.Else = is
			}
			cur = is
		}
		if def != nil {
			cur.Else = bodyOf(def)
		}
		if sw.Init != nil {
			return &ast.BlockStmt{Lbrace: sw.Pos(), List: []ast.Stmt{sw.Init, head}, Rbrace: sw.End()}
		}
		return head
	}
	rewriteList = func(list []ast.Stmt) {
		for i, st := range list {
			target := st
			var lab *ast.LabeledStmt
			if l, ok := st.(*ast.LabeledStmt); ok {
				lab = l
				target = l.Stmt
			}
			if sw, ok := target.(*ast.SwitchStmt); ok {
				// a labelled switch may be the target of `break label` from inside: keep it
				if lab == nil {
					if repl := convert(sw); repl != nil {
						list[i] = repl
						n++
					}
				}
			}
		}
	}
	for _, pk := range p.Pkgs {
		curInfo = pk.TypesInfo
		for _, f := range pk.Syntax {
			// repeat until stable: rewritten bodies may contain further switches (handled by the same walk, since the
			// new if-chain's blocks are visited below)
			for round := 0; round < 4; round++ {
				before := n
				ast.Inspect(f, func(k ast.Node) bool {
					switch x := k.(type) {
					case *ast.BlockStmt:
						rewriteList(x.List)
					case *ast.CaseClause:
						rewriteList(x.Body)
					case *ast.CommClause:
						rewriteList(x.Body)
					}
					return true
				})
				if n == before {
					break
				}
			}
		}
	}
	return n
}

// A second normalisation, applied after the first: the hand-written spellings of the min and max builtins. With P, Q
// the operands of one ordering test and m the builtin that the test selects (P when P < Q: min; P when P > Q: max; <=
// and >= likewise; the operands may be written in either order and under conversions):
//
//	if P < Q { X = P } else { X = Q }         X = m(P, Q)
//	X = Q; if P < Q { X = P }                 X = m(P, Q)      (the if may carry an init statement, which is kept)
//	if A > B { A = B }                        A = m(A, B)      (the previous line with X = A implicit)
//	X = V; if X > B { X = B }                 X = m(V, B)      (a clamp right after the value is set: one statement)
//	if A == 0 { A = 1 }                       A = max(A, 1)    (A unsigned)
//	if P < Q { return P }; return Q           return m(P, Q)   (also with else; when Q is a local that is updated
//	                                                            elsewhere in the function:  Q = m(Q, P); return Q)
//	if A < B { A = 0 } else { A -= B }        A -= min(A, B)   (branches in either order, A = A - B for A -= B)
//	if A < B { return 0 }; return A - B       return A - min(A, B)
//
// X, A are variables or field paths of integer type. Both sides of each line compute the same value for every input,
// so rules see one spelling only: a clamp written with the builtin and a clamp written as a branch are the same clamp,
// and one with the comparison turned round is the other builtin. The synthesised call carries the target's type and
// resolves `min`/`max` to the universe builtins.
func desugarClamps(p *Prog) int {
	n := 0
	for _, pk := range p.Pkgs {
		info := pk.TypesInfo
		strip := func(e ast.Expr) ast.Expr {
			for {
				e = ast.Unparen(e)
				c, ok := e.(*ast.CallExpr)
				if !ok || !isConversion(info, c) || len(c.Args) != 1 {
					return e
				}
				e = c.Args[0]
			}
		}
		var path func(e ast.Expr) bool
		path = func(e ast.Expr) bool {
			switch x := ast.Unparen(e).(type) {
			case *ast.Ident:
				_, isVar := info.ObjectOf(x).(*types.Var)
				return isVar
			case *ast.SelectorExpr:
				if s := info.Selections[x]; s != nil && s.Kind() == types.FieldVal {
					return path(x.X)
				}
			}
			return false
		}
		intTyped := func(e ast.Expr) bool {
			t := info.TypeOf(e)
			if t == nil {
				return false
			}
			b, ok := t.Underlying().(*types.Basic)
			return ok && b.Info()&types.IsInteger != 0
		}
		unsigned := func(e ast.Expr) bool {
			b, ok := info.TypeOf(e).Underlying().(*types.Basic)
			return ok && b.Info()&types.IsUnsigned != 0
		}
		text := func(e ast.Expr) string { return types.ExprString(strip(e)) }
		same := func(a, b ast.Expr) bool { return text(a) == text(b) }
		mentions := func(e ast.Node, x ast.Expr) bool {
			want := text(x)
			found := false
			ast.Inspect(e, func(k ast.Node) bool {
				if ex, ok := k.(ast.Expr); ok && types.ExprString(ex) == want {
					found = true
				}
				return !found
			})
			return found
		}
		var clone func(e ast.Expr) ast.Expr
		clone = func(e ast.Expr) ast.Expr {
			switch x := e.(type) {
			case *ast.Ident:
				c := *x
				if o := info.Uses[x]; o != nil {
					info.Uses[&c] = o
				} else if o := info.Defs[x]; o != nil {
					info.Uses[&c] = o
				}
				if tv, ok := info.Types[x]; ok {
					info.Types[&c] = tv
				} else if o := info.ObjectOf(x); o != nil {
					info.Types[&c] = info.Types[x]
				}
				return &c
			case *ast.SelectorExpr:
				c := *x
				c.X = clone(x.X)
				c.Sel = clone(x.Sel).(*ast.Ident)
				if s := info.Selections[x]; s != nil {
					info.Selections[&c] = s
				}
				if tv, ok := info.Types[x]; ok {
					info.Types[&c] = tv
				}
				return &c
			case *ast.ParenExpr:
				return clone(x.X)
			}
			return e
		}
		// m(a, b) typed like `like`
		builtin := func(name string, at token.Pos, a, b ast.Expr, like ast.Expr) *ast.CallExpr {
			id := &ast.Ident{NamePos: at, Name: name}
			info.Uses[id] = types.Universe.Lookup(name)
			call := &ast.CallExpr{Fun: id, Lparen: at, Args: []ast.Expr{a, b}, Rparen: b.End()}
			tv := info.Types[ast.Unparen(like)]
			tv.Value = nil
			if tv.Type == nil {
				tv.Type = info.TypeOf(like)
			}
			info.Types[call] = tv
			return call
		}
		constIs := func(e ast.Expr, want int64) bool {
			tv, ok := info.Types[e]
			if !ok || tv.Value == nil {
				return false
			}
			v, ok := constantInt(tv)
			return ok && v == want
		}
		// which builtin does `P op Q ? V1 : V2` compute, {V1, V2} = {P, Q}?
		selector := func(be *ast.BinaryExpr, v1, v2 ast.Expr) string {
			var first bool // V1 is P
			switch {
			case same(be.X, v1) && same(be.Y, v2):
				first = true
			case same(be.Y, v1) && same(be.X, v2):
				first = false
			default:
				return ""
			}
			switch be.Op {
			case token.LSS, token.LEQ:
				if first {
					return "min"
				}
				return "max"
			case token.GTR, token.GEQ:
				if first {
					return "max"
				}
				return "min"
			}
			return ""
		}
		oneAssign := func(b ast.Stmt) *ast.AssignStmt {
			blk, ok := b.(*ast.BlockStmt)
			if !ok || len(blk.List) != 1 {
				return nil
			}
			as, ok := blk.List[0].(*ast.AssignStmt)
			if !ok || len(as.Lhs) != 1 || len(as.Rhs) != 1 {
				return nil
			}
			return as
		}
		oneReturn := func(st ast.Stmt) *ast.ReturnStmt {
			if blk, ok := st.(*ast.BlockStmt); ok {
				if len(blk.List) != 1 {
					return nil
				}
				st = blk.List[0]
			}
			r, ok := st.(*ast.ReturnStmt)
			if !ok || len(r.Results) != 1 {
				return nil
			}
			return r
		}
		cmpOf := func(is *ast.IfStmt) *ast.BinaryExpr {
			e := ast.Unparen(is.Cond)
			neg := false
			for {
				u, ok := e.(*ast.UnaryExpr)
				if !ok || u.Op != token.NOT {
					break
				}
				neg = !neg
				e = ast.Unparen(u.X)
			}
			be, _ := e.(*ast.BinaryExpr)
			if be == nil || !neg {
				return be
			}
			// !(a < b) is a >= b
			nop, ok := negOp[be.Op]
			if !ok {
				return nil
			}
			nb := &ast.BinaryExpr{X: be.X, OpPos: be.OpPos, Op: nop, Y: be.Y}
			if tv, ok := info.Types[be]; ok {
				info.Types[nb] = tv
			}
			return nb
		}
		// how often the function assigns each local (to tell an accumulator from a value that is set once)
		assignCount := map[types.Object]int{}
		for _, f := range pk.Syntax {
			ast.Inspect(f, func(k ast.Node) bool {
				switch x := k.(type) {
				case *ast.AssignStmt:
					for _, l := range x.Lhs {
						if id, ok := ast.Unparen(l).(*ast.Ident); ok {
							if o := info.ObjectOf(id); o != nil {
								assignCount[o]++
							}
						}
					}
				case *ast.IncDecStmt:
					if id, ok := ast.Unparen(x.X).(*ast.Ident); ok {
						if o := info.ObjectOf(id); o != nil {
							assignCount[o]++
						}
					}
				}
				return true
			})
		}
		// one statement (with its predecessor and successor in the list) -> its replacement(s); consumed says how many
		// neighbours were absorbed
		type repl struct {
			stmts              []ast.Stmt
			eatsPrev, eatsNext bool
		}
		convert := func(prev ast.Stmt, is *ast.IfStmt, next ast.Stmt) *repl {
			be := cmpOf(is)
			if be == nil {
				return nil
			}
			body := oneAssign(is.Body)
			// --- reslice clamp: if len(Q) > K { Q = Q[:K] } is Q = Q[:min(K, len(Q))]
			if body != nil && is.Else == nil && body.Tok == token.ASSIGN && len(body.Rhs) == 1 && path(body.Lhs[0]) {
				if sl, ok := ast.Unparen(body.Rhs[0]).(*ast.SliceExpr); ok && sl.Low == nil && sl.High != nil && !sl.Slice3 && same(sl.X, body.Lhs[0]) {
					isLen := func(e ast.Expr) bool {
						call, ok := strip(e).(*ast.CallExpr)
						if !ok || len(call.Args) != 1 {
							return false
						}
						id, ok := call.Fun.(*ast.Ident)
						return ok && id.Name == "len" && same(call.Args[0], body.Lhs[0])
					}
					var lenE, k ast.Expr
					switch {
					case (be.Op == token.GTR || be.Op == token.GEQ) && isLen(be.X):
						lenE, k = be.X, be.Y
					case (be.Op == token.LSS || be.Op == token.LEQ) && isLen(be.Y):
						lenE, k = be.Y, be.X
					}
					if lenE != nil && same(k, sl.High) {
						nsl := &ast.SliceExpr{X: sl.X, Lbrack: sl.Lbrack, High: builtin("min", is.Cond.Pos(), k, lenE, k), Rbrack: sl.Rbrack}
						info.Types[nsl] = info.Types[sl]
						as := &ast.AssignStmt{Lhs: []ast.Expr{body.Lhs[0]}, TokPos: body.TokPos, Tok: token.ASSIGN, Rhs: []ast.Expr{nsl}}
						r := &repl{stmts: []ast.Stmt{as}}
						if is.Init != nil {
							r.stmts = append([]ast.Stmt{is.Init}, r.stmts...)
						}
						return r
					}
				}
			}
			// --- assignments
			if body != nil && path(body.Lhs[0]) && intTyped(body.Lhs[0]) {
				x := body.Lhs[0]
				if is.Else != nil {
					withInit := func(r *repl) *repl {
						if r != nil && is.Init != nil {
							r.stmts = append([]ast.Stmt{is.Init}, r.stmts...)
						}
						return r
					}
					other := oneAssign(is.Else)
					if other == nil || !same(other.Lhs[0], x) {
						return nil
					}
					// select: if P op Q { X = V1 } else { X = V2 }
					if body.Tok == token.ASSIGN && other.Tok == token.ASSIGN {
						if name := selector(be, body.Rhs[0], other.Rhs[0]); name != "" {
							return withInit(&repl{stmts: []ast.Stmt{&ast.AssignStmt{Lhs: []ast.Expr{x}, TokPos: body.TokPos, Tok: token.ASSIGN, Rhs: []ast.Expr{builtin(name, is.Cond.Pos(), other.Rhs[0], body.Rhs[0], x)}}}})
						}
					}
					// saturating subtraction: one branch zeroes A, the other subtracts B, the zeroing one taken when A < B
					zero, sub := body, other
					op := be.Op
					var b ast.Expr
					switch {
					case same(be.X, x):
						b = be.Y
					case same(be.Y, x):
						b, op = be.X, flipOp[op]
					default:
						return nil
					}
					switch op {
					case token.LSS, token.LEQ:
					case token.GTR, token.GEQ:
						zero, sub = other, body
					default:
						return nil
					}
					if zero.Tok != token.ASSIGN || !constIs(zero.Rhs[0], 0) {
						return nil
					}
					var subtrahend ast.Expr
					switch {
					case sub.Tok == token.SUB_ASSIGN:
						subtrahend = sub.Rhs[0]
					case sub.Tok == token.ASSIGN:
						if d, ok := ast.Unparen(sub.Rhs[0]).(*ast.BinaryExpr); ok && d.Op == token.SUB && same(d.X, x) {
							subtrahend = d.Y
						}
					}
					if subtrahend == nil || !same(subtrahend, b) {
						return nil
					}
					return withInit(&repl{stmts: []ast.Stmt{&ast.AssignStmt{Lhs: []ast.Expr{sub.Lhs[0]}, TokPos: sub.TokPos, Tok: token.SUB_ASSIGN, Rhs: []ast.Expr{builtin("min", is.Cond.Pos(), clone(x), subtrahend, x)}}}})
				}
				if is.Else != nil || body.Tok != token.ASSIGN {
					return nil
				}
				// clamp of the variable itself (an init statement of the if, `if limit := m; x > limit`, is kept before it)
				if same(be.X, x) || same(be.Y, x) {
					withInit := func(r *repl) *repl {
						if r != nil && is.Init != nil {
							r.stmts = append([]ast.Stmt{is.Init}, r.stmts...)
							r.eatsPrev = false
						}
						return r
					}
					if is.Init != nil {
						prev = nil
					}
					if be.Op == token.EQL && unsigned(x) && constIs(body.Rhs[0], 1) && ((same(be.X, x) && constIs(be.Y, 0)) || (same(be.Y, x) && constIs(be.X, 0))) {
						return withInit(&repl{stmts: []ast.Stmt{&ast.AssignStmt{Lhs: []ast.Expr{x}, TokPos: body.TokPos, Tok: token.ASSIGN, Rhs: []ast.Expr{builtin("max", is.Cond.Pos(), clone(x), body.Rhs[0], x)}}}})
					}
					if name := selector(be, body.Rhs[0], x); name != "" {
						// X = V just before: the clamp of that value, in one statement
						if pa, ok := prev.(*ast.AssignStmt); ok && len(pa.Lhs) == 1 && len(pa.Rhs) == 1 && (pa.Tok == token.ASSIGN || pa.Tok == token.DEFINE) &&
							same(pa.Lhs[0], x) && !mentions(pa.Rhs[0], x) && !mentions(body.Rhs[0], x) && intTyped(pa.Rhs[0]) {
							return &repl{stmts: []ast.Stmt{&ast.AssignStmt{Lhs: []ast.Expr{pa.Lhs[0]}, TokPos: pa.TokPos, Tok: pa.Tok, Rhs: []ast.Expr{builtin(name, is.Cond.Pos(), pa.Rhs[0], body.Rhs[0], x)}}}, eatsPrev: true}
						}
						return withInit(&repl{stmts: []ast.Stmt{&ast.AssignStmt{Lhs: []ast.Expr{x}, TokPos: body.TokPos, Tok: token.ASSIGN, Rhs: []ast.Expr{builtin(name, is.Cond.Pos(), clone(x), body.Rhs[0], x)}}}})
					}
					return nil
				}
				// default set just before: X = V2; if P op Q { X = V1 }
				if pa, ok := prev.(*ast.AssignStmt); ok && len(pa.Lhs) == 1 && len(pa.Rhs) == 1 && (pa.Tok == token.ASSIGN || pa.Tok == token.DEFINE) &&
					same(pa.Lhs[0], x) && !mentions(is.Cond, x) && (is.Init == nil || !mentions(is.Init, x)) {
					if name := selector(be, body.Rhs[0], pa.Rhs[0]); name != "" {
						out := []ast.Stmt{}
						if is.Init != nil {
							out = append(out, is.Init)
						}
						out = append(out, &ast.AssignStmt{Lhs: []ast.Expr{pa.Lhs[0]}, TokPos: pa.TokPos, Tok: pa.Tok, Rhs: []ast.Expr{builtin(name, is.Cond.Pos(), pa.Rhs[0], body.Rhs[0], x)}})
						return &repl{stmts: out, eatsPrev: true}
					}
				}
				return nil
			}
			// --- returns
			then := oneReturn(is.Body)
			if then == nil || is.Init != nil {
				return nil
			}
			var other *ast.ReturnStmt
			eats := false
			if is.Else != nil {
				other = oneReturn(is.Else)
			} else if next != nil {
				other = oneReturn(next)
				eats = true
			}
			if other == nil || !intTyped(other.Results[0]) {
				return nil
			}
			if name := selector(be, then.Results[0], other.Results[0]); name != "" {
				call := builtin(name, is.Cond.Pos(), other.Results[0], then.Results[0], other.Results[0])
				// an accumulator handed out clamped: its last update
				if id, ok := ast.Unparen(other.Results[0]).(*ast.Ident); ok {
					if v, ok := info.ObjectOf(id).(*types.Var); ok && !v.IsField() && assignCount[v] >= 2 {
						call.Args[0] = clone(id)
						return &repl{stmts: []ast.Stmt{
							&ast.AssignStmt{Lhs: []ast.Expr{clone(id)}, TokPos: call.Pos(), Tok: token.ASSIGN, Rhs: []ast.Expr{call}},
							&ast.ReturnStmt{Return: other.Return, Results: []ast.Expr{id}}}, eatsNext: eats}
					}
				}
				return &repl{stmts: []ast.Stmt{&ast.ReturnStmt{Return: other.Return, Results: []ast.Expr{call}}}, eatsNext: eats}
			}
			// saturating subtraction handed out: one return is 0, the other A - B, 0 when A < B
			zero, diff := then, other
			var d *ast.BinaryExpr
			if constIs(other.Results[0], 0) {
				zero, diff = other, then
			}
			if !constIs(zero.Results[0], 0) {
				return nil
			}
			d, ok := ast.Unparen(diff.Results[0]).(*ast.BinaryExpr)
			if !ok || d.Op != token.SUB || !intTyped(d.X) {
				return nil
			}
			// the zero branch is taken when A < B (or A <= B)
			op := be.Op
			switch {
			case same(be.X, d.X) && same(be.Y, d.Y):
			case same(be.Y, d.X) && same(be.X, d.Y):
				op = flipOp[op]
			default:
				return nil
			}
			if zero != then {
				op = negOp[op]
			}
			if op != token.LSS && op != token.LEQ {
				return nil
			}
			sub := &ast.BinaryExpr{X: d.X, OpPos: d.OpPos, Op: token.SUB, Y: builtin("min", is.Cond.Pos(), clone(d.X), d.Y, d.X)}
			info.Types[sub] = info.Types[d]
			return &repl{stmts: []ast.Stmt{&ast.ReturnStmt{Return: other.Return, Results: []ast.Expr{sub}}}, eatsNext: eats}
		}
		rewriteList := func(list []ast.Stmt) []ast.Stmt {
			changed := false
			var out []ast.Stmt
			for i := 0; i < len(list); i++ {
				st := list[i]
				is, ok := st.(*ast.IfStmt)
				if !ok {
					out = append(out, st)
					continue
				}
				var prev, next ast.Stmt
				if len(out) > 0 {
					prev = out[len(out)-1]
				}
				if i+1 < len(list) {
					next = list[i+1]
				}
				r := convert(prev, is, next)
				if r == nil {
					out = append(out, st)
					continue
				}
				changed = true
				n++
				if r.eatsPrev {
					out = out[:len(out)-1]
				}
				out = append(out, r.stmts...)
				if r.eatsNext {
					i++
				}
			}
			if !changed {
				return list
			}
			return out
		}
		for _, f := range pk.Syntax {
			ast.Inspect(f, func(k ast.Node) bool {
				switch x := k.(type) {
				case *ast.BlockStmt:
					x.List = rewriteList(x.List)
				case *ast.CaseClause:
					x.Body = rewriteList(x.Body)
				case *ast.CommClause:
					x.Body = rewriteList(x.Body)
				}
				return true
			})
		}
	}
	return n
}

// desugarLoopHeads: `for { if C { break }; S… }` is `for !C { S… }` — the exit test written as the first statement of an
// endless loop is the loop's condition (a `continue` in S comes round to the same test either way). Only the plain form:
// no init / post, the `if` without init and else, its body the lone unlabelled break, the loop not labelled. Rules that
// read loop conditions (bisect.step, the comparisons' refusal sides, counting loops) then see one spelling.
func desugarLoopHeads(p *Prog) int {
	n := 0
	for _, pk := range p.Pkgs {
		info := pk.TypesInfo
		for _, f := range pk.Syntax {
			ast.Inspect(f, func(k ast.Node) bool {
				fs, ok := k.(*ast.ForStmt)
				if !ok || fs.Init != nil || fs.Cond != nil || fs.Post != nil || fs.Body == nil || len(fs.Body.List) < 2 {
					return true
				}
				is, ok := fs.Body.List[0].(*ast.IfStmt)
				if !ok || is.Init != nil || is.Else != nil || len(is.Body.List) != 1 {
					return true
				}
				br, ok := is.Body.List[0].(*ast.BranchStmt)
				if !ok || br.Tok != token.BREAK || br.Label != nil {
					return true
				}
				var cond ast.Expr
				if u, ok := ast.Unparen(is.Cond).(*ast.UnaryExpr); ok && u.Op == token.NOT {
					cond = ast.Unparen(u.X) // if !(C) { break }: the condition is C
				} else {
					not := &ast.UnaryExpr{OpPos: is.Cond.Pos(), Op: token.NOT, X: &ast.ParenExpr{Lparen: is.Cond.Pos(), X: is.Cond, Rparen: is.Cond.End()}}
					if tv, ok := info.Types[is.Cond]; ok {
						info.Types[not] = tv
						info.Types[not.X] = tv
					}
					cond = not
				}
				fs.Cond = cond
				fs.Body.List = fs.Body.List[1:]
				n++
				return true
			})
		}
	}
	return n
}
