#!/usr/bin/env python3
"""Generates cmp_table.go: the boundary comparisons of the specification that zrnt implements.

Each pick names a function and the comparison as it reads in the tree at the time the table was written, together
with the SPEC's formulation (consensus-specs v1.5.0-beta.2 / p2p-interface), which was read against the code when the
entry was added. The generator only normalises the pick (operand leaves -> regexes, operator and integer offset after
orienting on the first operand); the resulting Go table is literal data, independent of the tree at check time.
"""
import os
import re, subprocess, sys

PICKS = [
 # ---- phase0 / altair / deneb attestation processing (process_attestation)
 ("phase0.ProcessAttestation", "data.Target.Epoch < previousEpoch", "data.target.epoch in (previous_epoch, current_epoch): refuse target < previous"),
 ("phase0.ProcessAttestation", "data.Target.Epoch > currentEpoch", "data.target.epoch in (previous_epoch, current_epoch): refuse target > current"),
 ("phase0.ProcessAttestation", "data.Target.Epoch != spec.SlotToEpoch(data.Slot)", "data.target.epoch == compute_epoch_at_slot(data.slot)"),
 ("phase0.ProcessAttestation", "currentSlot <= data.Slot + spec.SLOTS_PER_EPOCH", "state.slot <= data.slot + SLOTS_PER_EPOCH"),
 ("phase0.ProcessAttestation", "data.Slot + spec.MIN_ATTESTATION_INCLUSION_DELAY <= currentSlot", "data.slot + MIN_ATTESTATION_INCLUSION_DELAY <= state.slot"),
 ("phase0.ProcessAttestation", "uint64(data.Index) >= commCount", "data.index < get_committee_count_per_slot (refuse >=)"),
 ("altair.ProcessAttestation", "data.Target.Epoch < previousEpoch", "data.target.epoch in (previous_epoch, current_epoch): refuse target < previous"),
 ("altair.ProcessAttestation", "data.Target.Epoch > currentEpoch", "data.target.epoch in (previous_epoch, current_epoch): refuse target > current"),
 ("altair.ProcessAttestation", "data.Target.Epoch != spec.SlotToEpoch(data.Slot)", "data.target.epoch == compute_epoch_at_slot(data.slot)"),
 ("altair.ProcessAttestation", "currentSlot <= data.Slot + spec.SLOTS_PER_EPOCH", "state.slot <= data.slot + SLOTS_PER_EPOCH"),
 ("altair.ProcessAttestation", "data.Slot + spec.MIN_ATTESTATION_INCLUSION_DELAY <= currentSlot", "data.slot + MIN_ATTESTATION_INCLUSION_DELAY <= state.slot"),
 ("altair.ProcessAttestation", "uint64(data.Index) >= commCount", "data.index < get_committee_count_per_slot (refuse >=)"),
 ("deneb.ProcessAttestation", "data.Target.Epoch < previousEpoch", "data.target.epoch in (previous_epoch, current_epoch): refuse target < previous"),
 ("deneb.ProcessAttestation", "data.Target.Epoch > currentEpoch", "data.target.epoch in (previous_epoch, current_epoch): refuse target > current"),
 ("deneb.ProcessAttestation", "data.Slot + spec.MIN_ATTESTATION_INCLUSION_DELAY <= currentSlot", "data.slot + MIN_ATTESTATION_INCLUSION_DELAY <= state.slot (EIP-7045: no upper bound)"),
 ("deneb.ProcessAttestation", "uint64(data.Index) >= commCount", "data.index < get_committee_count_per_slot (refuse >=)"),
 ("altair.GetApplicableAttestationParticipationFlags", "inclusionDelay <= spec.SLOTS_PER_EPOCH", "timely target: inclusion_delay <= SLOTS_PER_EPOCH"),
 ("altair.GetApplicableAttestationParticipationFlags", "inclusionDelay == spec.MIN_ATTESTATION_INCLUSION_DELAY", "timely head: inclusion_delay == MIN_ATTESTATION_INCLUSION_DELAY"),
 ("deneb.GetApplicableAttestationParticipationFlags", "inclusionDelay == spec.MIN_ATTESTATION_INCLUSION_DELAY", "timely head: inclusion_delay == MIN_ATTESTATION_INCLUSION_DELAY"),
 # ---- validator predicates
 ("common.ExtraData.View", "len(otx) > MAX_EXTRA_DATA_BYTES", "extra_data: ByteList[MAX_EXTRA_DATA_BYTES]: exactly MAX bytes is valid (refuse >)"),
 ("common.EpochsContext.GetBeaconCommittee", "index >= CommitteeIndex(epc.Spec.MAX_COMMITTEES_PER_SLOT)", "committee index < MAX_COMMITTEES_PER_SLOT"),
 ("common.EpochsContext.GetBeaconCommittee", "index >= CommitteeIndex(len(slotComms))", "committee index < get_committee_count_per_slot"),
 ("common.IndexedSyncCommittee.Subcommittee", "subnet >= SYNC_COMMITTEE_SUBNET_COUNT", "subcommittee index < SYNC_COMMITTEE_SUBNET_COUNT"),
 ("phase0.IsValidGenesisState", "genTime < spec.MIN_GENESIS_TIME", "is_valid_genesis_state: genesis_time >= MIN_GENESIS_TIME"),
 ("phase0.IsValidGenesisState", "activeCount >= uint64(spec.MIN_GENESIS_ACTIVE_VALIDATOR_COUNT)", "is_valid_genesis_state: active validators >= MIN_GENESIS_ACTIVE_VALIDATOR_COUNT (exactly MIN is enough)"),
 ("phase0.ComputeSubnetForAttestation", "committeeIndex >= maxCommitteeIndex", "committee index is below committees_per_slot * SLOTS_PER_EPOCH"),
 ("phase0.ProcessEth1DataReset", "epc.NextEpoch.Epoch % spec.EPOCHS_PER_ETH1_VOTING_PERIOD == 0", "eth1 votes reset when the NEXT epoch starts a voting period"),
 ("phase0.ProcessHistoricalRootsUpdate", "epc.NextEpoch.Epoch % spec.SlotToEpoch(spec.SLOTS_PER_HISTORICAL_ROOT) == 0", "historical batch appended when the NEXT epoch is a multiple of SLOTS_PER_HISTORICAL_ROOT // SLOTS_PER_EPOCH"),
 ("capella.ProcessHistoricalSummariesUpdate", "epc.NextEpoch.Epoch % spec.SlotToEpoch(spec.SLOTS_PER_HISTORICAL_ROOT) == 0", "historical summary appended when the NEXT epoch is a multiple of SLOTS_PER_HISTORICAL_ROOT // SLOTS_PER_EPOCH"),
 ("capella.ProcessExecutionPayload", "executionPayload.ParentHash != parent.BlockHash", "payload.parent_hash == state.latest_execution_payload_header.block_hash"),
 ("capella.ProcessExecutionPayload", "executionPayload.PrevRandao != expectedMix", "payload.prev_randao == get_randao_mix(state, current_epoch)"),
 ("capella.ProcessExecutionPayload", "executionPayload.Timestamp != expectedTime", "payload.timestamp == compute_timestamp_at_slot(state, state.slot)"),
 ("phase0.ValidateIndexedAttestationSignature", "len(pubkeys) <= 0", "an indexed attestation without attesters is invalid"),
 ("common.Epoch.Previous", "e == GENESIS_EPOCH", "get_previous_epoch: GENESIS_EPOCH has no predecessor (returns itself)"),
 ("common.Slot.Previous", "s == GENESIS_SLOT", "slot 0 has no predecessor"),
 ("common.ApplyDeltas", "uint64(len(deltas.Penalties)) != length", "one penalty per validator"),
 ("common.ApplyDeltas", "uint64(len(deltas.Rewards)) != length", "one reward per validator"),
 ("common.ProposersEpoch.GetBeaconProposer", "epoch != epc.Epoch", "proposers are known for the epoch they were computed for only"),
 ("common.PostSlotTransition", "slot != benv.Slot", "block.slot == state.slot"),
 ("common.ProcessSlot", "latestHeader.StateRoot == (Root{})", "the previous state root is filled into the latest header when it is still zeroed"),
 ("common.BeaconBlockEnvelope.VerifySignatureVersioned", "b.ProposerIndex != proposer", "the signature is checked against the key of block.proposer_index"),
 # ---- proto-array query functions: closed coverage (every refusing / skipping comparison is reviewed; see cmpClosed)
 ("proto.ProtoArray.Search", "node.Ref.Root == node.ParentRoot", "only nodes that carry a block are search results (empty-slot nodes repeat their block's root)"),
 ("proto.ProtoArray.Search", "node.BestChild != NONE", "head search: a node without children is a head"),
 ("proto.ProtoArray.Search", "desc.Ref.Root != node.Ref.Root", "head search: a node whose descendants are only its own empty slots is still a head"),
 ("proto.ProtoArray.Search", "node.ParentRoot != *parentRoot", "search by parent root keeps the children of that root only"),
 ("proto.ProtoArray.Search", "node.Ref.Slot != *slot", "search by slot keeps the blocks of that slot only"),
 ("proto.ProtoArray.CanonAtSlot", "anchorSlot == slot", "the anchor's own slot is answered by the anchor"),
 ("proto.ProtoArray.CanonAtSlot", "node.ParentRoot != anchor", "pre-block query at the anchor: the anchor node must be the empty (pre-block) node"),
 ("proto.ProtoArray.CanonAtSlot", "index >= pr.indexOffset", "the walk stays inside the live array"),
 ("proto.ProtoArray.CanonAtSlot", "index != NONE", "the walk ends at a node without transition parent"),
 ("proto.ProtoArray.CanonAtSlot", "node.ParentRoot != node.Ref.Root", "pre-block query: nodes that carry a block are stepped over"),
 ("proto.ProtoArray.CanonAtSlot", "node.Ref.Root == node.ParentRoot", "with-block query: an empty-slot node at the slot means there is no block"),
 ("proto.ProtoArray.CanonicalChain", "index != NONE", "the chain ends at a node without transition parent"),
 ("proto.ProtoArray.CanonicalChain", "index >= pr.indexOffset", "the chain stays inside the live array"),
 ("proto.ProtoArray.ClosestToSlot", "anchorSlot == slot", "the anchor's own slot is answered by the anchor"),
 ("proto.ProtoArray.inSubtree", "anchorIndex == lookupIndex", "a node is in its own subtree"),
 ("proto.ProtoArray.inSubtree", "anchorNode.BestDescendant == lookupIndex", "the anchor's best descendant is below it"),
 ("proto.ProtoArray.inSubtree", "anchorNode.BestDescendant == lookupNode.BestDescendant", "same relative head: same chain"),
 ("proto.ProtoArray.inSubtree", "i != NONE", "the parent walk ends at a node without transition parent"),
 ("proto.ProtoArray.inSubtree", "tmp.BestDescendant == anchorNode.BestDescendant", "an ancestor that shares the anchor's best descendant lies between the anchor and its head"),
 ("phase0.IsActive", "activationEpoch > epoch", "is_active_validator: activation_epoch <= epoch (refuse >)"),
 ("phase0.IsActive", "epoch >= exitEpoch", "is_active_validator: epoch < exit_epoch (refuse >=)"),
 ("common.FlatValidator.IsActive", "v.ActivationEpoch <= epoch", "is_active_validator: activation_epoch <= epoch"),
 ("common.FlatValidator.IsActive", "epoch < v.ExitEpoch", "is_active_validator: epoch < exit_epoch"),
 ("common.ActiveIndices", "v.Activation <= epoch", "is_active_validator: activation_epoch <= epoch"),
 ("common.ActiveIndices", "epoch < v.Exit", "is_active_validator: epoch < exit_epoch"),
 ("common.EpochsContext.loadCurrentStake", "v.Activation <= currentEpoch", "get_total_active_balance: activation_epoch <= epoch"),
 ("common.EpochsContext.loadCurrentStake", "currentEpoch < v.Exit", "get_total_active_balance: epoch < exit_epoch"),
 ("phase0.IsSlashable", "activationEpoch > epoch", "is_slashable_validator: activation_epoch <= epoch (refuse >)"),
 ("phase0.IsSlashable", "withdrawableEpoch <= epoch", "is_slashable_validator: epoch < withdrawable_epoch (refuse <=)"),
 ("phase0.IsEligibleForActivation", "actEligEpoch <= finalizedEpoch", "is_eligible_for_activation: activation_eligibility_epoch <= finalized_checkpoint.epoch"),
 ("phase0.IsSurroundVote", "a.Source.Epoch < b.Source.Epoch", "surround: data_1.source.epoch < data_2.source.epoch"),
 ("phase0.IsSurroundVote", "a.Target.Epoch > b.Target.Epoch", "surround: data_2.target.epoch < data_1.target.epoch"),
 ("phase0.IsDoubleVote", "a.Target.Epoch == b.Target.Epoch", "double vote: data_1.target.epoch == data_2.target.epoch"),
 # ---- exits / registry / churn
 ("phase0.ValidateVoluntaryExit", "currentEpoch < exit.Epoch", "get_current_epoch(state) >= voluntary_exit.epoch (refuse <)"),
 ("phase0.ValidateVoluntaryExit", "currentEpoch < registeredActivationEpoch + spec.SHARD_COMMITTEE_PERIOD", "current_epoch >= activation_epoch + SHARD_COMMITTEE_PERIOD (refuse <)"),
 ("deneb.ValidateVoluntaryExit", "currentEpoch < exit.Epoch", "get_current_epoch(state) >= voluntary_exit.epoch (refuse <)"),
 ("deneb.ValidateVoluntaryExit", "currentEpoch < registeredActivationEpoch + spec.SHARD_COMMITTEE_PERIOD", "current_epoch >= activation_epoch + SHARD_COMMITTEE_PERIOD (refuse <)"),
 ("phase0.InitiateValidatorExit", "exitQueueEndChurn >= churnLimit", "exit_queue_churn >= get_validator_churn_limit(state) => exit_queue_epoch += 1"),
 ("phase0.ComputeRegistryProcessData", "exitQueueEndChurn >= churnLimit", "exit_queue_churn >= get_validator_churn_limit(state) => exit_queue_epoch += 1"),
 ("phase0.ProcessEpochRegistryUpdates", "endChurn >= registerData.ChurnLimit", "batched initiate_validator_exit: churn >= get_validator_churn_limit(state)"),
 ("deneb.ProcessEpochRegistryUpdates", "endChurn >= registerData.ChurnLimit", "ejections use get_validator_churn_limit(state) (the activation cap applies to activations only)"),
 ("phase0.ComputeRegistryProcessData", "flat.ActivationEligibilityEpoch <= currentEpoch", "activation queue candidates (is_eligible_for_activation is tested against finality later)"),
 ("phase0.ComputeRegistryProcessData", "flat.EffectiveBalance <= spec.EJECTION_BALANCE", "ejection: effective_balance <= EJECTION_BALANCE"),
 ("phase0.ProcessEpochRegistryUpdates", "flats[index].ActivationEligibilityEpoch > finality.Epoch", "is_eligible_for_activation: eligibility_epoch <= finalized.epoch (stop at >)"),
 ("deneb.ProcessEpochRegistryUpdates", "flats[index].ActivationEligibilityEpoch > finality.Epoch", "is_eligible_for_activation: eligibility_epoch <= finalized.epoch (stop at >)"),
 # ---- epoch processing
 ("phase0.ComputeEpochAttesterData", "prevEpoch + 1 < flat.WithdrawableEpoch", "eligible: slashed and previous_epoch + 1 < withdrawable_epoch"),
 ("altair.ComputeEpochAttesterData", "prevEpoch + 1 < flat.WithdrawableEpoch", "eligible: slashed and previous_epoch + 1 < withdrawable_epoch"),
 ("phase0.AttestationRewardsAndPenalties", "finalityDelay > spec.MIN_EPOCHS_TO_INACTIVITY_PENALTY", "is_in_inactivity_leak: finality_delay > MIN_EPOCHS_TO_INACTIVITY_PENALTY"),
 ("altair.AttestationRewardsAndPenalties", "finalityDelay > spec.MIN_EPOCHS_TO_INACTIVITY_PENALTY", "is_in_inactivity_leak: finality_delay > MIN_EPOCHS_TO_INACTIVITY_PENALTY"),
 ("altair.ProcessInactivityUpdates", "finalityDelay > spec.MIN_EPOCHS_TO_INACTIVITY_PENALTY", "is_in_inactivity_leak: finality_delay > MIN_EPOCHS_TO_INACTIVITY_PENALTY"),
 ("phase0.ProcessEpochJustification", "currentEpoch <= common.GENESIS_EPOCH + 1", "if get_current_epoch(state) <= GENESIS_EPOCH + 1: return"),
 ("phase0.ProcessEpochJustification", "data.PrevEpochUnslashedTargetStake * 3 >= totalStake * 2", "previous_target_balance * 3 >= total_active_balance * 2"),
 ("phase0.ProcessEpochJustification", "data.CurrEpochUnslashedTargetStake * 3 >= totalStake * 2", "current_target_balance * 3 >= total_active_balance * 2"),
 ("phase0.ProcessEpochJustification", "oldPreviousJustified.Epoch + 3 == currentEpoch", "bits[1:4] and old_previous_justified.epoch + 3 == current_epoch"),
 ("phase0.ProcessEpochJustification", "oldPreviousJustified.Epoch + 2 == currentEpoch", "bits[1:3] and old_previous_justified.epoch + 2 == current_epoch"),
 ("phase0.ProcessEpochJustification", "oldCurrentJustified.Epoch + 2 == currentEpoch", "bits[0:3] and old_current_justified.epoch + 2 == current_epoch"),
 ("phase0.ProcessEpochJustification", "oldCurrentJustified.Epoch + 1 == currentEpoch", "bits[0:2] and old_current_justified.epoch + 1 == current_epoch"),
 ("phase0.ProcessEffectiveBalanceUpdates", "balance + DOWNWARD_THRESHOLD < effBalance", "balance + DOWNWARD_THRESHOLD < effective_balance"),
 ("phase0.ProcessEffectiveBalanceUpdates", "effBalance + UPWARD_THRESHOLD < balance", "effective_balance + UPWARD_THRESHOLD < balance"),
 ("phase0.ProcessEth1Vote", "voteCount << 1 > period", "votes.count(eth1_data) * 2 > EPOCHS_PER_ETH1_VOTING_PERIOD * SLOTS_PER_EPOCH"),
 ("phase0.ProcessEth1Vote", "voteCount >= period", "the votes list holds at most EPOCHS_PER_ETH1_VOTING_PERIOD * SLOTS_PER_EPOCH entries (refuse when full)"),
 ("phase0.ProcessDeposits", "inputCount != expectedInputCount", "len(body.deposits) == min(MAX_DEPOSITS, ...)"),
 ("phase0.ProcessDeposit", "uint64(valIndex) < valCount", "pubkey known to THIS state: index < len(state.validators)"),
 # ---- header / slots
 ("common.ProcessHeader", "header.Slot != currentSlot", "block.slot == state.slot"),
 ("common.ProcessHeader", "header.Slot <= latestHeader.Slot", "block.slot > state.latest_block_header.slot (refuse <=)"),
 ("common.ProcessHeader", "header.ProposerIndex != expectedProposer", "block.proposer_index == get_beacon_proposer_index(state)"),
 ("common.ProcessSlots", "currentSlot >= slot", "assert state.slot < slot (refuse >=)"),
 ("common.ProcessSlots", "currentSlot < slot", "while state.slot < slot"),
 ("common.Fork.GetDomain", "messageEpoch < f.Epoch", "fork_version = previous_version if epoch < fork.epoch else current_version"),
 # ---- capella withdrawals
 ("capella.IsFullyWithdrawableValidator", "withdrawableEpoch <= epoch", "is_fully_withdrawable: withdrawable_epoch <= epoch and balance > 0"),
 ("capella.IsFullyWithdrawableValidator", "balance > 0", "is_fully_withdrawable: balance > 0"),
 ("capella.IsPartiallyWithdrawableValidator", "balance > spec.MAX_EFFECTIVE_BALANCE", "is_partially_withdrawable: balance > MAX_EFFECTIVE_BALANCE"),
 ("capella.IsPartiallyWithdrawableValidator", "effectiveBalance == spec.MAX_EFFECTIVE_BALANCE", "is_partially_withdrawable: effective_balance == MAX_EFFECTIVE_BALANCE"),
 ("capella.GetExpectedWithdrawals", "i >= uint64(spec.MAX_VALIDATORS_PER_WITHDRAWALS_SWEEP)", "bound = min(len(validators), MAX_VALIDATORS_PER_WITHDRAWALS_SWEEP)"),
 ("capella.GetExpectedWithdrawals", "len(withdrawals) == int(spec.MAX_WITHDRAWALS_PER_PAYLOAD)", "if len(withdrawals) == MAX_WITHDRAWALS_PER_PAYLOAD: break"),
 ("capella.ProcessWithdrawals", "len(expectedWithdrawals) == int(spec.MAX_WITHDRAWALS_PER_PAYLOAD)", "full payload: next validator index follows the last withdrawal"),
 ("capella.ProcessBLSToExecutionChange", "uint64(addressChange.ValidatorIndex) >= validatorCount", "address_change.validator_index < len(state.validators) (refuse >=)"),
 ("deneb.ProcessExecutionPayload", "uint64(len(body.BlobKZGCommitments)) > uint64(spec.MAX_BLOBS_PER_BLOCK)", "len(body.blob_kzg_commitments) <= MAX_BLOBS_PER_BLOCK (refuse >)"),
 # ---- sampling
 ("common.ComputeProposerIndex", "effectiveBalance * 0xff >= spec.MAX_EFFECTIVE_BALANCE * Gwei(randomByte)", "effective_balance * MAX_RANDOM_BYTE >= MAX_EFFECTIVE_BALANCE * random_byte"),
 ("common.ComputeSyncCommitteeIndices", "effectiveBalance * 0xff >= spec.MAX_EFFECTIVE_BALANCE * Gwei(randomByte)", "effective_balance * MAX_RANDOM_BYTE >= MAX_EFFECTIVE_BALANCE * random_byte"),
 # ---- attestation bit lengths (pool / gossip rely on these guards)
 ("phase0.AttestationBits.SingleParticipant", "bitLen != uint64(len(committee))", "len(aggregation_bits) == len(committee)"),
 ("phase0.AttestationBits.FilterParticipants", "bitLen != uint64(len(committee))", "len(aggregation_bits) == len(committee)"),
 ("phase0.AttestationBits.FilterNonParticipants", "bitLen != uint64(len(committee))", "len(aggregation_bits) == len(committee)"),
 ("phase0.Attestation.ConvertToIndexed", "uint64(len(committee)) != bitLen", "len(aggregation_bits) == len(committee)"),
 ("phase0.ValidateIndexedAttestationIndicesSet", "len(indices) <= 0", "len(indices) == 0 => invalid"),
 # ---- pubkey cache boundaries
 ("common.PubkeyCache.unsafePubkey", "index >= pc.trustedParentCount", "entries at or above the fork-out index belong to this level"),
 ("common.PubkeyCache.unsafeValidatorIndex", "index >= pc.trustedParentCount", "parent entries at or above the fork-out index are not part of this history"),
 # ---- fork choice
 ("forkchoice.ProtoForkChoice.UpdateJustified", "fc.justified.Epoch >= justified.Epoch", "older or equal checkpoints change nothing"),
 ("forkchoice.ProtoForkChoice.UpdateJustified", "fc.finalized.Epoch >= finalized.Epoch", "older or equal checkpoints change nothing"),
 ("forkchoice.ProtoForkChoice.updateJustified", "justified.Epoch < finalized.Epoch", "justified epoch must not be lower than finalized epoch"),
 ("forkchoice.ProtoForkChoice.updateJustified", "fc.finalized.Epoch > finalized.Epoch", "new finalized checkpoint must not be older"),
 ("forkchoice.ProtoForkChoice.updateJustified", "fc.finalized.Epoch > justified.Epoch", "new justified checkpoint must not be older than finality"),
 ("proto.ProtoArray.inSubtree", "i >= anchorIndex", "parent walk examines every node down to and including the anchor"),
 ("proto.ProtoArray.inSubtree", "anchorNode.Ref.Slot >= lookupNode.Ref.Slot", "a node at the same or an earlier slot cannot be a strict descendant"),
 ("proto.ProtoArray.inSubtree", "anchorIndex >= lookupIndex", "descendants are inserted after their ancestors"),
 ("proto.ProtoArray.getNode", "index < pr.indexOffset", "pruned indices are unknown"),
 ("proto.ProtoArray.getNode", "i >= NodeIndex(len(pr.nodes))", "index one past the last node is out of range"),
 ("proto.ProtoArray.ProcessBlock", "parentBlockSlot >= blockSlot", "a block must be later than its parent"),
 ("proto.ProtoArray.maybeUpdateBestChildAndDescendant", "child.Weight >= bestChild.Weight", "heavier subtree wins (equal weights are decided by the root tie-break before)"),
 ("proto.ProtoVoteStore.ProcessAttestation", "targetEpoch > vote.NextTargetEpoch", "a vote for a later target epoch replaces the earlier one"),
 ("proto.ProtoVoteStore.ComputeDeltas", "vote.CurrentTargetEpoch < vote.NextTargetEpoch", "apply the pending vote only if it is newer"),
 # ---- gossip
 ("gossipval.CheckSlotSpan", "slot + span < minSlot", "slot + range >= current_slot (with clock disparity): refuse <"),
 ("gossipval.CheckSlotSpan", "slot > maxSlot", "current_slot >= slot (with clock disparity): refuse >"),
 ("gossipval.ValidateBeaconBlock", "maxSlot < block.Slot", "block.slot <= current_slot (with disparity): ignore >"),
 ("gossipval.ValidateBeaconBlock", "refSlot >= block.Slot", "block is later than its parent"),
 ("gossipval.ValidateBeaconBlock", "block.Slot <= finSlot", "block.slot > start slot of the finalized epoch: ignore <="),
 ("gossipval.ValidateAttestation", "participants != 1", "exactly one aggregation bit set"),
 ("gossipval.ValidateAttestation", "uint64(att.Data.Index) >= committeeCountPerSlot", "data.index < get_committee_count_per_slot: reject >="),
 ("gossipval.ValidateAttestation", "bl != uint64(len(committee))", "len(aggregation_bits) == len(committee)"),
 ("gossipval.ValidateAggregateAndProof", "att.AggregationBits.OnesCount() < 1", "len(attesting_indices) >= 1: reject < 1"),
 ("gossipval.ValidateSyncContribAndProof", "contrib.SubcommitteeIndex >= common.SYNC_COMMITTEE_SUBNET_COUNT", "subcommittee_index < SYNC_COMMITTEE_SUBNET_COUNT: reject >="),
 # ---- pools
 ("pool.AttestationPool.Prune", "v.Data.Target.Epoch < min", "attestations with target before the previous epoch can no longer be included"),
 ("pool.AttestationPool.Prune", "k.Epoch < min", "per-validator records are dropped with the same bound as the attestations they describe (previous epoch is kept)"),
 # ---- round-2 additions
 ("proto.ProtoArray.isNodeViableForHead", "node.JustifiedEpoch == pr.justifiedEpoch", "node_is_viable_for_head: correct_justified = store.justified.epoch == GENESIS or leaf justified epoch == store justified epoch"),
 ("proto.ProtoArray.isNodeViableForHead", "pr.justifiedEpoch == common.GENESIS_EPOCH", "correct_justified: the genesis exemption reads the STORE's justified epoch"),
 ("proto.ProtoArray.isNodeViableForHead", "node.FinalizedEpoch == pr.finalizedEpoch", "correct_finalized: leaf finalized epoch == store finalized epoch"),
 ("proto.ProtoArray.isNodeViableForHead", "pr.finalizedEpoch == common.GENESIS_EPOCH", "correct_finalized: the genesis exemption reads the STORE's finalized epoch"),
 ("phase0.ValidateVoluntaryExit", "scheduledExitEpoch != common.FAR_FUTURE_EPOCH", "validator.exit_epoch == FAR_FUTURE_EPOCH (exit not yet initiated)"),
 ("deneb.ValidateVoluntaryExit", "scheduledExitEpoch != common.FAR_FUTURE_EPOCH", "validator.exit_epoch == FAR_FUTURE_EPOCH (exit not yet initiated)"),
 ("common.EpochsContext.RotateEpochs", "epc.CurrentEpoch.Epoch % epc.Spec.EPOCHS_PER_SYNC_COMMITTEE_PERIOD == 0", "the cached sync committees rotate when the NEW current epoch starts a sync-committee period"),
 ("phase0.GenesisFromEth1", "vEff == spec.MAX_EFFECTIVE_BALANCE", "genesis activation: validator.effective_balance == MAX_EFFECTIVE_BALANCE"),
 ("proto.ProtoArray.ApplyScoreChanges", "justifiedEpoch != pr.justifiedEpoch", "cached justified epoch refreshed when it differs"),
 ("proto.ProtoArray.ApplyScoreChanges", "finalizedEpoch != pr.finalizedEpoch", "cached finalized epoch refreshed when it differs"),
 # ---- bulk review of the transition functions (second pass)
 ("phase0.ComputeEpochAttesterData", "status.InclusionDelay > att.InclusionDelay", "the attestation with the lowest inclusion_delay counts"),
 ("phase0.ComputeEpochAttesterData", "att.Data.Target.Root == actualTargetBlockRoot", "matching target: data.target.root == get_block_root(state, epoch)"),
 ("phase0.ComputeEpochAttesterData", "att.Data.BeaconBlockRoot == attBlockRoot", "matching head: data.beacon_block_root == get_block_root_at_slot(state, data.slot)"),
 ("altair.ComputeFlagDeltas", "flag != TIMELY_HEAD_FLAG", "non-participants are penalised for source and target, not for head"),
 ("altair.GetApplicableAttestationParticipationFlags", "data.Target.Epoch == currentEpoch", "justified checkpoint of the attestation's target epoch: current if target.epoch == current_epoch else previous"),
 ("altair.GetApplicableAttestationParticipationFlags", "data.Source == justifiedCheckpoint", "is_matching_source = data.source == justified_checkpoint"),
 ("altair.GetApplicableAttestationParticipationFlags", "expectedTarget == data.Target.Root", "is_matching_target: data.target.root == get_block_root(state, data.target.epoch)"),
 ("altair.GetApplicableAttestationParticipationFlags", "expectedHead == data.BeaconBlockRoot", "is_matching_head: data.beacon_block_root == get_block_root_at_slot(state, data.slot)"),
 ("altair.GetApplicableAttestationParticipationFlags", "inclusionDelay <= common.Slot(math.IntegerSquareroot(uint64(spec.SLOTS_PER_EPOCH)))", "timely source: inclusion_delay <= integer_squareroot(SLOTS_PER_EPOCH)"),
 ("deneb.GetApplicableAttestationParticipationFlags", "data.Target.Epoch == currentEpoch", "as altair"),
 ("deneb.GetApplicableAttestationParticipationFlags", "data.Source == justifiedCheckpoint", "as altair"),
 ("deneb.GetApplicableAttestationParticipationFlags", "expectedTarget == data.Target.Root", "as altair"),
 ("deneb.GetApplicableAttestationParticipationFlags", "expectedHead == data.BeaconBlockRoot", "as altair"),
 ("deneb.GetApplicableAttestationParticipationFlags", "inclusionDelay <= common.Slot(math.IntegerSquareroot(uint64(spec.SLOTS_PER_EPOCH)))", "as altair"),
 ("altair.ProcessInactivityUpdates", "attesterData.CurrEpoch == common.GENESIS_EPOCH", "process_inactivity_updates: skip the genesis epoch"),
 ("altair.ProcessInactivityUpdates", "newScore > 0", "score -= min(1, score)"),
 ("bellatrix.ProcessExecutionPayload", "executionPayload.ParentHash != parent.BlockHash", "payload.parent_hash == state.latest_execution_payload_header.block_hash"),
 ("bellatrix.ProcessExecutionPayload", "executionPayload.PrevRandao != expectedMix", "payload.prev_randao == get_randao_mix(state, current_epoch)"),
 ("bellatrix.ProcessExecutionPayload", "executionPayload.Timestamp != expectedTime", "payload.timestamp == compute_timestamp_at_slot(state, state.slot)"),
 ("capella.ProcessWithdrawals", "len(expectedWithdrawals) != len(withdrawals)", "len(payload.withdrawals) == len(expected_withdrawals)"),
 ("capella.ProcessWithdrawals", "withdrawal.Index != expectedWithdrawal.Index", "withdrawal == expected_withdrawal (index)"),
 ("capella.ProcessWithdrawals", "withdrawal.ValidatorIndex != expectedWithdrawal.ValidatorIndex", "withdrawal == expected_withdrawal (validator_index)"),
 ("capella.ProcessWithdrawals", "withdrawal.Amount != expectedWithdrawal.Amount", "withdrawal == expected_withdrawal (amount)"),
 ("capella.ProcessWithdrawals", "len(expectedWithdrawals) > 0", "next_withdrawal_index advances only when there were withdrawals"),
 ("common.ProcessHeader", "header.ParentRoot != latestRoot", "block.parent_root == hash_tree_root(state.latest_block_header)"),
 ("deneb.ProcessAttestation", "data.Target.Epoch != spec.SlotToEpoch(data.Slot)", "data.target.epoch == compute_epoch_at_slot(data.slot)"),
 ("phase0.ComputeRegistryProcessData", "flat.ActivationEligibilityEpoch == common.FAR_FUTURE_EPOCH", "is_eligible_for_activation_queue: activation_eligibility_epoch == FAR_FUTURE_EPOCH"),
 ("phase0.ComputeRegistryProcessData", "flat.EffectiveBalance == spec.MAX_EFFECTIVE_BALANCE", "is_eligible_for_activation_queue: effective_balance == MAX_EFFECTIVE_BALANCE"),
 ("phase0.ComputeRegistryProcessData", "flat.ActivationEpoch == common.FAR_FUTURE_EPOCH", "is_eligible_for_activation: activation_epoch == FAR_FUTURE_EPOCH"),
 ("phase0.ComputeRegistryProcessData", "valIndexA < valIndexB", "activation queue order: by eligibility epoch, then by index"),
 ("phase0.ComputeRegistryProcessData", "exit > exitQueueEnd", "exit queue end = max(exit epochs, compute_activation_exit_epoch(current))"),
 ("phase0.ComputeRegistryProcessData", "exit == exitQueueEnd", "exit queue churn counts the validators exiting at the queue end"),
 ("phase0.InitiateValidatorExit", "exitEp != common.FAR_FUTURE_EPOCH", "initiate_validator_exit: return if validator.exit_epoch != FAR_FUTURE_EPOCH"),
 ("phase0.InitiateValidatorExit", "valExit == exitQueueEnd", "exit queue churn counts the validators exiting at the queue end"),
 ("phase0.InitiateValidatorExit", "valExit > exitQueueEnd", "exit queue end = max(exit epochs, compute_activation_exit_epoch(current))"),
 ("phase0.ProcessEpochSlashings", "slashingsEpoch == flat.WithdrawableEpoch", "validator.slashed and epoch + EPOCHS_PER_SLASHINGS_VECTOR // 2 == validator.withdrawable_epoch"),
 ("phase0.SlashValidator", "withdrawalEpoch > prevWithdrawalEpoch", "withdrawable_epoch = max(withdrawable_epoch, epoch + EPOCHS_PER_SLASHINGS_VECTOR)"),
 ("phase0.ValidateProposerSlashingNoSignature", "ps.SignedHeader1.Message == ps.SignedHeader2.Message", "header_1 != header_2"),
 # ---- fork choice / gossip / pools (second pass)
 ("proto.ProtoArray.maybeUpdateBestChildAndDescendant", "child.Weight == bestChild.Weight", "equal weights are a tie (decided by root), not a win for either side"),
 ("proto.ProtoArray.maybeUpdateBestChildAndDescendant", "bytes.Compare(child.Ref.Root[:], bestChild.Ref.Root[:]) > 0", "ties go to the greater root"),
 ("proto.ProtoArray.maybeUpdateBestChildAndDescendant", "parent.BestChild == childIndex", "re-evaluating the current best child is the 'same child' case"),
 ("proto.ProtoVoteStore.ComputeDeltas", "oldBal != newBal", "a changed balance moves weight even when the vote did not change"),
 ("proto.ProtoVoteStore.ProcessAttestation", "targetEpoch == 0", "genesis-epoch votes are accepted when no vote was recorded yet"),
 ("proto.ProtoArray.OnPrune", "anchorIndex == pr.indexOffset", "nothing to prune when the anchor already is the first node"),
 ("proto.ProtoArray.OnPrune", "i < anchorIndex", "exactly the nodes before the anchor are pruned"),
 ("proto.ProtoArray.OnPrune", "p.node.Ref.Root != anchorRoot", "the anchor's own block-slot entry survives the prune"),
 ("proto.ProtoArray.CanonAtSlot", "anchorSlot > slot", "no canonical node before the anchor"),
 ("proto.ProtoArray.CanonAtSlot", "head.Slot <= slot", "the head is the answer for slots at or after it"),
 ("proto.ProtoArray.CanonAtSlot", "node.Ref.Slot == slot", "the node at the requested slot"),
 ("proto.ProtoArray.CanonAtSlot", "node.Ref.Slot < slot", "walking back past the slot means it is empty on this chain"),
 ("proto.ProtoArray.ClosestToSlot", "anchorSlot > slot", "no node before the anchor"),
 ("proto.ProtoArray.ClosestToSlot", "min.Slot + 1 < max.Slot", "bisect until the bounds are adjacent"),
 ("gossipval.ValidateAttestation", "att.Data.Target.Epoch != attEpoch", "[REJECT] attestation.data.target.epoch == compute_epoch_at_slot(attestation.data.slot)"),
 ("gossipval.ValidateAttestation", "subnet != assignedSubnet", "[REJECT] the attestation is for the correct subnet"),
 ("gossipval.ValidateAggregateAndProof", "att.Data.Target.Epoch != attEpoch", "[REJECT] aggregate.data.target.epoch == compute_epoch_at_slot(aggregate.data.slot)"),
 ("gossipval.ValidateBeaconBlock", "proposer != block.ProposerIndex", "[REJECT] the block is proposed by the expected proposer_index"),
 ("gossipval.ValidateSyncContribAndProof", "valIndex == contribAndProof.AggregatorIndex", "[REJECT] the aggregator's validator index is in the declared subcommittee"),
 ("pool.SyncCommitteePool.Reset", "sp.currentSlot == slot + 1", "one slot back"),
 ("pool.SyncCommitteePool.Reset", "sp.currentSlot == slot", "same slot: nothing to rotate"),
 ("pool.SyncCommitteePool.Reset", "sp.currentSlot + 1 == slot", "one slot forward"),
 ("pool.SyncCommitteePool.AddSyncCommitteeMessage", "sp.currentSlot == msg.Slot + 1", "previous-slot buffer"),
 ("pool.SyncCommitteePool.AddSyncCommitteeMessage", "sp.currentSlot == msg.Slot", "current-slot buffer"),
 ("pool.SyncCommitteePool.AddSyncCommitteeMessage", "sp.currentSlot + 1 == msg.Slot", "next-slot buffer"),
 ("pool.SyncCommitteePool.AddSyncCommitteeContribution", "sp.currentSlot == contrib.Slot + 1", "previous-slot buffer"),
 ("pool.SyncCommitteePool.AddSyncCommitteeContribution", "sp.currentSlot == contrib.Slot", "current-slot buffer"),
 ("pool.SyncCommitteePool.AddSyncCommitteeContribution", "sp.currentSlot + 1 == contrib.Slot", "next-slot buffer"),
 ("pool.AttestationPool.AddAttestation", "existing.DataRoot != dataRoot", "a second vote by the same validator in the same epoch for other data is a double vote"),
 ("pool.AttestationPool.AddAttestation", "count == 1", "single-bit attestations are tracked per validator"),
 ("pool.AttestationPool.AddAttestation", "count == 0", "an attestation without participants is refused"),
 ("phase0.SlashingsHistory.Deserialize", "common.Epoch(len(*a)) != spec.EPOCHS_PER_SLASHINGS_VECTOR", "a vector has exactly N elements: a recycled destination of any other length (shorter OR longer) is resized before decoding"),
]

TYPED = [
 # (fn, operand type, op, count, spec)
 ("forkchoice.ProtoForkChoice.updateJustified", "Checkpoint", "!=", 2, "a changed finalized / justified checkpoint (epoch AND root) triggers the subtree check"),
 ("phase0.ProcessAttestation", "Checkpoint", "!=", 2, "data.source == the justified checkpoint of the target's epoch (whole checkpoint)"),
]

CLOSED = ["proto.ProtoArray.Search", "proto.ProtoArray.CanonAtSlot", "proto.ProtoArray.CanonicalChain", "proto.ProtoArray.ClosestToSlot", "proto.ProtoArray.inSubtree"]

def dump():
    out = subprocess.check_output([os.environ.get("ZL_BIN", "/verif/bin/zrntlint"), "cmps"]).decode()
    rows = []
    for line in out.splitlines():
        line, _, rest = line.partition("\t")
        absform, _, rest2 = rest.partition("\t")
        resform, _, rest3 = rest2.partition("\t")
        ropform, _, rest4 = rest3.partition("\t")
        mkform, _, rest5 = rest4.partition("\t")
        raform, _, nzform = rest5.partition("\t")
        m = re.match(r"^(\S+)\s+(\S+)\s+P=(.*?)\s+// (.*)$", line)
        if m:
            rows.append((m.group(1), m.group(2), m.group(3).strip(), m.group(4).strip(), absform.strip(), resform.strip(), ropform.strip(), mkform.strip(), raform.strip(), nzform.strip() == "nz"))
    return rows

def parse_poly(s):
    terms = {}
    for t in s.split(" + "):
        t = t.strip()
        m = re.match(r"^(-?\d+)\*(.*)$", t)
        if m and not re.match(r"^-?\d+$", t):
            terms[m.group(2)] = int(m.group(1))
        elif re.match(r"^-?\d+$", t):
            terms[""] = terms.get("", 0) + int(t)
        else:
            terms[t] = 1
    return terms

def leaf_regex(atom):
    # anchored, case-insensitive: calls by name, selector paths by their last two components, plain names exactly
    if "(" in atom and not atom.startswith("("):
        name = atom[:atom.index("(")].split(".")[-1]
        return "(?i)^" + re.escape(atom) + "$"
    parts = atom.split(".")
    if 2 <= len(parts) <= 3:
        return "(?i)^" + re.escape(atom) + "$"
    if len(parts) >= 2:
        return "(?i)(^|\\.)" + re.escape(".".join(parts[-3:])) + "$"
    return "(?i)^" + re.escape(atom) + "$"

FLIP = {"<": ">", "<=": ">=", ">": "<", ">=": "<=", "==": "==", "!=": "!="}

def main():
    rows = dump()
    out = ["package main", "", "// Generated by gen_cmp_table.py from reviewed picks; literal data, independent of the tree at check time.",
           "var cmpTable = []cmpSpec{"]
    missing = 0
    for fn, text, spec in PICKS:
        cands = [r for r in rows if r[0] == fn and r[3] == text]
        if not cands:
            print("PICK NOT FOUND:", fn, text, file=sys.stderr)
            missing += 1
            continue
        _, op, ps, _, absform, resform, ropform, mkform, raform, nz = cands[0]
        poly = parse_poly(ps)
        k = poly.pop("", 0)
        # atoms of monomials (split products)
        atoms = []
        for mono, c in poly.items():
            for a in mono.split("*"):
                atoms.append((a, c))
        # anchor: first atom appearing in the text's left operand order -> choose the atom whose name occurs first in text
        def pos(a):
            leaf = re.sub(r"\(.*$", "", a[0]).split(".")[-1]
            i = text.find(leaf)
            return i if i >= 0 else 10**6
        atoms.sort(key=pos)
        anchor, ac = atoms[0]
        ROP = ropform
        if ac < 0:
            ROP = FLIP.get(ROP, ROP)
            op = FLIP[op]
            k = -k
            atoms = [(a, -c) for a, c in atoms]
        if nz:
            # the operands are known to differ at this comparison: one writing per truth side (see cmpSite.differ)
            NZ = {">=": ">", "<": "<="}
            op = NZ.get(op, op)
            ROP = NZ.get(ROP, ROP)
        regs, coefs, seen = [], [], set()
        for a, c in atoms:
            r = leaf_regex(a)
            if r in seen:
                continue
            seen.add(r)
            regs.append(r)
            coefs.append(c)
        count = len(cands)
        out.append('\t{fn: %s, atoms: []string{%s}, op: %s, k: %d, coefs: []int64{%s}, count: %d, abs: %s, res: %s, ra: %s, rop: %s, mk: %s, spec: %s},' % (
            gq(fn), ", ".join(gq(r) for r in regs), gq(op), k, ", ".join(str(c) for c in coefs), count, gq(absform), gq(resform), gq(raform), gq(ROP), gq(mkform), gq(spec)))
    for fn, typ, op, count, spec in TYPED:
        out.append('\t{fn: %s, typ: %s, op: %s, count: %d, spec: %s},' % (gq(fn), gq(typ), gq(op), count, gq(spec)))
    out.append("}")
    out.append("")
    out.append("// cmpClosed: functions whose refusing / skipping comparisons are ALL reviewed: one that no entry accounts for is reported.")
    out.append("var cmpClosed = map[string]bool{")
    for fn in CLOSED:
        out.append("\t%s: true," % gq(fn))
    out.append("}")
    open(os.path.join(os.path.dirname(os.path.abspath(__file__)), "cmp_table.go"), "w").write("\n".join(out) + "\n")
    print("entries:", len(PICKS) + len(TYPED) - missing, "missing:", missing)

def gq(s):
    return '"' + s.replace("\\", "\\\\").replace('"', '\\"') + '"'

main()
