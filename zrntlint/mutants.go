package main

import (
	_ "embed"
	"encoding/json"
	"flag"
	"fmt"
	"os"
	"os/exec"
	"path/filepath"
	"regexp"
	"sort"
	"strings"
	"sync"
)

// Mutant is a one-edit variant of today's zrnt sources, applied through the go/packages overlay
// (no copy of the repository is written anywhere). The corpus measures the checker; it never enters a verdict.
type Mutant struct {
	ID     string `json:"id"`
	Rule   string `json:"rule"` // rule expected to report
	File   string `json:"file"` // repo-relative path
	Old    string `json:"old"`  // text to replace
	New    string `json:"new"`
	Nth    int    `json:"nth,omitempty"` // 1-based occurrence when Old occurs several times (0 = must be unique)
	Expect string `json:"expect"`        // substring of the obligation key that must become a violation
	Note   string `json:"note,omitempty"`
	All    bool   `json:"all,omitempty"` // replace every occurrence in the file
	Re     bool   `json:"re,omitempty"`  // Old is a regular expression (implies All)
}

//go:embed mutants.json
var mutantsJSON []byte

func loadMutants() []Mutant {
	var ms []Mutant
	if err := json.Unmarshal(mutantsJSON, &ms); err != nil {
		panic("mutants.json: " + err.Error())
	}
	return ms
}

type mutantResult struct {
	ID     string `json:"id"`
	Rule   string `json:"rule"`
	Status string `json:"status"` // killed | survived | stale | broken
	Detail string `json:"detail,omitempty"`
}

func applyMutant(repo string, m Mutant) (map[string][]byte, string) {
	abs := filepath.Join(repo, m.File)
	b, err := os.ReadFile(abs)
	if err != nil {
		return nil, "stale: cannot read " + m.File
	}
	s := string(b)
	if m.Re {
		re, err := regexp.Compile(m.Old)
		if err != nil {
			return nil, "broken regexp"
		}
		if !re.MatchString(s) {
			return nil, "stale: pattern no longer matches"
		}
		return map[string][]byte{abs: []byte(re.ReplaceAllString(s, m.New))}, ""
	}
	if m.All {
		if !strings.Contains(s, m.Old) {
			return nil, "stale: anchor text no longer present"
		}
		return map[string][]byte{abs: []byte(strings.ReplaceAll(s, m.Old, m.New))}, ""
	}
	n := strings.Count(s, m.Old)
	if n == 0 {
		return nil, "stale: anchor text no longer present"
	}
	if m.Nth == 0 && n != 1 {
		return nil, fmt.Sprintf("stale: anchor text occurs %d times", n)
	}
	idx := -1
	if m.Nth == 0 {
		idx = strings.Index(s, m.Old)
	} else {
		off := 0
		for i := 0; i < m.Nth; i++ {
			j := strings.Index(s[off:], m.Old)
			if j < 0 {
				return nil, "stale: fewer occurrences than nth"
			}
			idx = off + j
			off = idx + len(m.Old)
		}
	}
	out := s[:idx] + m.New + s[idx+len(m.Old):]
	return map[string][]byte{abs: []byte(out)}, ""
}

func runOneMutant(repo string, m Mutant) mutantResult {
	res := mutantResult{ID: m.ID, Rule: m.Rule}
	r := rules[m.Rule]
	if r == nil {
		res.Status, res.Detail = "broken", "unknown rule "+m.Rule
		return res
	}
	ov, why := applyMutant(repo, m)
	if why != "" {
		res.Status, res.Detail = "stale", why
		return res
	}
	p, err := load(loadOpts{repo: repo, overlay: ov})
	if err != nil {
		res.Status, res.Detail = "broken", "mutant does not type-check: "+truncate(err.Error(), 200)
		return res
	}
	rr := runRule(p, r)
	if rr.Err != "" {
		// an analyser error is also a (non-silent) outcome, but the corpus wants a named violation
		res.Status, res.Detail = "survived", "rule errored instead of naming the construct: "+rr.Err
		return res
	}
	var viol []string
	for _, o := range rr.Obligs {
		if o.Status == Violation {
			viol = append(viol, o.Key)
			if strings.Contains(o.Key, m.Expect) {
				res.Status = "killed"
				res.Detail = o.Key + " @ " + o.Pos
				return res
			}
		}
	}
	res.Status = "survived"
	if len(viol) > 0 {
		res.Detail = "other violations: " + strings.Join(viol, ", ")
	}
	return res
}

func cmdMutants(args []string) int {
	fs := flag.NewFlagSet("mutants", flag.ExitOnError)
	rs := fs.String("rules", "", "only mutants of these rules (comma separated)")
	ids := fs.String("ids", "", "only these mutant ids")
	repo := fs.String("repo", "/repo", "")
	j := fs.Int("j", 12, "parallel workers")
	worker := fs.Bool("worker", false, "run the given ids in this process and print JSON lines")
	fs.Parse(args)
	ms := loadMutants()
	want := map[string]bool{}
	for _, r := range strings.Split(*rs, ",") {
		if r != "" {
			want[r] = true
		}
	}
	wantID := map[string]bool{}
	for _, r := range strings.Split(*ids, ",") {
		if r != "" {
			wantID[r] = true
		}
	}
	var sel []Mutant
	for _, m := range ms {
		if len(want) > 0 && !want[m.Rule] {
			continue
		}
		if len(wantID) > 0 && !wantID[m.ID] {
			continue
		}
		sel = append(sel, m)
	}
	if *worker {
		enc := json.NewEncoder(os.Stdout)
		for _, m := range sel {
			enc.Encode(runOneMutant(*repo, m))
		}
		return 0
	}
	results := runMutantsParallel(*repo, sel, *j)
	cnt := map[string]int{}
	for _, r := range results {
		cnt[r.Status]++
		if r.Status != "killed" {
			fmt.Printf("%-9s %-40s %-18s %s\n", r.Status, r.ID, r.Rule, r.Detail)
		}
	}
	fmt.Printf("mutants: total=%d killed=%d survived=%d stale=%d broken=%d\n", len(results), cnt["killed"], cnt["survived"], cnt["stale"], cnt["broken"])
	if cnt["survived"]+cnt["broken"]+cnt["stale"] > 0 {
		return 1
	}
	return 0
}

// runMutantsParallel runs mutants in sub-processes (a few per process: many program loads in one process exhaust memory).
func runMutantsParallel(repo string, sel []Mutant, workers int) []mutantResult {
	self, _ := os.Executable()
	const perProc = 4
	var chunks [][]Mutant
	for i := 0; i < len(sel); i += perProc {
		e := i + perProc
		if e > len(sel) {
			e = len(sel)
		}
		chunks = append(chunks, sel[i:e])
	}
	var mu sync.Mutex
	var results []mutantResult
	sem := make(chan struct{}, workers)
	var wg sync.WaitGroup
	for _, ch := range chunks {
		wg.Add(1)
		sem <- struct{}{}
		go func(ch []Mutant) {
			defer wg.Done()
			defer func() { <-sem }()
			var ids []string
			for _, m := range ch {
				ids = append(ids, m.ID)
			}
			cmd := exec.Command(self, "mutants", "-worker", "-repo", repo, "-ids", strings.Join(ids, ","))
			out, err := cmd.Output()
			got := map[string]bool{}
			for _, line := range strings.Split(string(out), "\n") {
				if strings.TrimSpace(line) == "" {
					continue
				}
				var r mutantResult
				if json.Unmarshal([]byte(line), &r) == nil {
					mu.Lock()
					results = append(results, r)
					mu.Unlock()
					got[r.ID] = true
				}
			}
			for _, m := range ch {
				if !got[m.ID] {
					mu.Lock()
					results = append(results, mutantResult{ID: m.ID, Rule: m.Rule, Status: "broken", Detail: fmt.Sprintf("worker failed: %v", err)})
					mu.Unlock()
				}
			}
		}(ch)
	}
	wg.Wait()
	sort.Slice(results, func(i, j int) bool { return results[i].ID < results[j].ID })
	return results
}

// runMutantsForRules is used by the thorough tier: the corpus restricted to the property's rules.
func runMutantsForRules(repo string, rs []string) map[string]any {
	want := map[string]bool{}
	for _, r := range rs {
		if i := strings.Index(r, "@"); i >= 0 {
			r = r[:i]
		}
		want[r] = true
	}
	var sel []Mutant
	for _, m := range loadMutants() {
		if want[m.Rule] {
			sel = append(sel, m)
		}
	}
	results := runMutantsParallel(repo, sel, 12)
	cnt := map[string]int{}
	var notKilled []mutantResult
	for _, r := range results {
		cnt[r.Status]++
		if r.Status != "killed" {
			notKilled = append(notKilled, r)
		}
	}
	var sample []mutantResult
	for i, r := range results {
		if i%7 == 0 && len(sample) < 8 {
			sample = append(sample, r)
		}
	}
	return map[string]any{
		"what":          "one-edit variants of today's zrnt sources applied through the go/packages overlay (nothing is executed); each must still type-check and must turn the expected obligation into a violation naming that construct. Measures the checker only: stale/survived never change the verdict.",
		"mutants_total": len(results), "killed": cnt["killed"], "survived": cnt["survived"], "stale": cnt["stale"], "broken": cnt["broken"],
		"not_killed": notKilled, "samples": sample,
	}
}
