package main

import (
	"fmt"
)

// Mutant is a one-edit variant of today's zrnt sources, applied through the go/packages overlay.
type Mutant struct {
	ID     string // unique name
	Rule   string // rule expected to report
	File   string // repo-relative path
	Old    string // text to replace (must occur exactly once unless Nth is set)
	New    string
	Nth    int    // 1-based occurrence when Old occurs several times (0 = must be unique)
	Expect string // substring of the obligation key that must become a violation
}

var mutants []Mutant

func mut(id, rule, file, old, new, expect string) {
	mutants = append(mutants, Mutant{ID: id, Rule: rule, File: file, Old: old, New: new, Expect: expect})
}
func mutN(id, rule, file, old, new string, nth int, expect string) {
	mutants = append(mutants, Mutant{ID: id, Rule: rule, File: file, Old: old, New: new, Nth: nth, Expect: expect})
}

func cmdMutants(args []string) int {
	fmt.Println("mutant corpus: not built yet")
	return 0
}

func runMutantsForRules(repo string, rs []string) map[string]any {
	return nil
}
