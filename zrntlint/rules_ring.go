package main

import (
	"fmt"
	"go/ast"
	"go/token"
	"go/types"
	"sort"
	"strings"

	"golang.org/x/tools/go/packages"
)

func init() {
	register(&Rule{Name: "ring.mod", Floor: 8,
		Doc: "wrap-around stores: (a) every epoch/slot-keyed accessor of a ring-buffer view (a type embedding a ztyp vector view) indexes the vector with `uint64(<its epoch/slot parameter>) % <receiver>.VectorLength`; (b) every value handed to a registry-cursor setter (SetNextWithdrawalValidatorIndex) from transition code is reduced modulo the validator count; (c) a validator-index variable that is advanced from itself (sweep) is reduced modulo the validator count",
		Run: ruleRingMod})
	register(&Rule{Name: "churn.flow", Floor: 2,
		Doc: "the capped activation churn limit (result of getValidatorActivationChurnLimit, 'Modified in Deneb') is used only to bound the activation queue (compared with / slicing a value derived from IndicesToMaybeActivate); exits and ejections keep the uncapped get_validator_churn_limit",
		Run: ruleChurnFlow})
}

// resolveLocal follows single-definition locals (and strips conversions and parentheses) up to depth steps.
func resolveLocal(info *types.Info, e ast.Expr, defs map[types.Object]localDef, depth int) ast.Expr {
	for ; depth > 0; depth-- {
		e = stripConv(info, ast.Unparen(e))
		id, ok := e.(*ast.Ident)
		if !ok {
			return e
		}
		d, ok := defs[info.ObjectOf(id)]
		if !ok || d.n != 1 || d.rhs == nil {
			return e
		}
		e = d.rhs
	}
	return e
}

// isModOf reports whether e (after local resolution) is `<x> % <m>` and returns both sides.
func isModOf(info *types.Info, e ast.Expr, defs map[types.Object]localDef) (x, m ast.Expr, ok bool) {
	e = resolveLocal(info, e, defs, 4)
	be, isBin := e.(*ast.BinaryExpr)
	if !isBin || be.Op != token.REM {
		return nil, nil, false
	}
	return be.X, be.Y, true
}

func mentionsObj(info *types.Info, e ast.Expr, obj types.Object) bool {
	found := false
	ast.Inspect(e, func(n ast.Node) bool {
		if id, ok := n.(*ast.Ident); ok && info.ObjectOf(id) == obj {
			found = true
		}
		return !found
	})
	return found
}

// derivesFromCall: e resolves (through single-def locals, multi-value definitions included) to a call of a function/method
// with the given name.
func derivesFromCall(info *types.Info, e ast.Expr, defs map[types.Object]localDef, name string) bool {
	for depth := 0; depth < 5; depth++ {
		e = stripConv(info, ast.Unparen(e))
		switch x := e.(type) {
		case *ast.CallExpr:
			if f := calleeFunc(info, x); f != nil && f.Name() == name {
				return true
			}
			if id, ok := x.Fun.(*ast.Ident); ok && id.Name == "len" && len(x.Args) == 1 {
				e = x.Args[0]
				continue
			}
			return false
		case *ast.Ident:
			d, ok := defs[info.ObjectOf(x)]
			if !ok || d.rhs == nil {
				return false
			}
			e = d.rhs
		default:
			return false
		}
	}
	return false
}

func ruleRingMod(c *Ctx) {
	nViews, nCursor, nSweep := 0, 0, 0
	cursorSeen := map[string]int{}
	c.P.funcDecls(func(pk *packages.Package, fd *ast.FuncDecl) {
		info := pk.TypesInfo
		if fd.Body == nil {
			return
		}
		if !strings.Contains(pk.PkgPath, "/eth2/beacon/") {
			return
		}
		defs := singleDefs(info, fd.Body)
		fname := pkgShort(pk.Types) + "." + funcName(fd)

		// (a) ring-buffer view accessors
		if fd.Recv != nil && len(fd.Recv.List) == 1 && len(fd.Recv.List[0].Names) == 1 {
			recvObj := info.ObjectOf(fd.Recv.List[0].Names[0])
			var keyParam types.Object
			if fd.Type.Params != nil {
				for _, f := range fd.Type.Params.List {
					nt := namedOf(info.TypeOf(f.Type))
					if nt != nil && (nt.Obj().Name() == "Epoch" || nt.Obj().Name() == "Slot") && len(f.Names) == 1 && keyParam == nil {
						keyParam = info.ObjectOf(f.Names[0])
					}
				}
			}
			if recvObj != nil && keyParam != nil && embedsVectorView(recvObj.Type()) {
				ast.Inspect(fd.Body, func(n ast.Node) bool {
					call, ok := n.(*ast.CallExpr)
					if !ok {
						return true
					}
					sel, ok := call.Fun.(*ast.SelectorExpr)
					if !ok || (sel.Sel.Name != "Get" && sel.Sel.Name != "Set") || len(call.Args) == 0 {
						return true
					}
					if id, ok := ast.Unparen(sel.X).(*ast.Ident); !ok || info.ObjectOf(id) != recvObj {
						return true
					}
					f := calleeFunc(info, call)
					if f == nil || f.Pkg() == nil || !strings.Contains(f.Pkg().Path(), "ztyp/view") {
						return true
					}
					nViews++
					key := fname + "@" + sel.Sel.Name
					// the index in its resolved normal form (locals and one-line helpers of the package read through, the
					// receiver written `recv`): one atom mod(<something of the key>, recv.VectorLength)
					polyRecv = recvObj
					polyInline = inlinableFuncs(c.P)
					polyReach, polyPaths = reachingDefs(info, fd.Body), true
					ip, okp := exprPoly(info, call.Args[0], defs, nil, 0)
					polyRecv, polyInline, polyReach, polyPaths = nil, nil, nil, false
					dividend, modulus := "", ""
					if okp && len(ip) == 1 {
						for a, cf := range ip {
							if cf == 1 && strings.HasPrefix(a, "mod(") && strings.HasSuffix(a, ")") {
								in := a[4 : len(a)-1]
								depth := 0
								for i := 0; i < len(in); i++ {
									switch in[i] {
									case '(', '[':
										depth++
									case ')', ']':
										depth--
									case ',':
										if depth == 0 {
											dividend, modulus = in[:i], in[i+1:]
										}
									}
								}
							}
						}
					}
					hasKey := false
					for _, t := range identTokRe.FindAllString(dividend, -1) {
						if t == keyParam.Name() {
							hasKey = true
						}
					}
					switch {
					case modulus == "":
						c.bad(key, call.Pos(), "%s indexes the ring vector with `%s`, which is not reduced modulo the vector length: epochs/slots beyond the vector length address no element (or the wrong one)", fname, types.ExprString(call.Args[0]))
					case !hasKey:
						c.bad(key, call.Pos(), "%s: ring index `%s %% …` does not derive from the %s parameter", fname, dividend, keyParam.Name())
					case modulus != "recv.VectorLength":
						c.bad(key, call.Pos(), "%s: ring index is reduced modulo `%s`, not the receiver's VectorLength", fname, modulus)
					default:
						c.ok(key, call.Pos(), "index = uint64(%s) %% %s.VectorLength", keyParam.Name(), recvObj.Name())
					}
					return true
				})
			}
		}

		// (b) registry-cursor setters called from transition code
		if funcName(fd) != "SetNextWithdrawalValidatorIndex" && !strings.HasSuffix(funcName(fd), ".SetNextWithdrawalValidatorIndex") {
			ast.Inspect(fd.Body, func(n ast.Node) bool {
				call, ok := n.(*ast.CallExpr)
				if !ok || len(call.Args) != 1 {
					return true
				}
				sel, ok := call.Fun.(*ast.SelectorExpr)
				if !ok || sel.Sel.Name != "SetNextWithdrawalValidatorIndex" {
					return true
				}
				base := fname + "@SetNextWithdrawalValidatorIndex"
				// the values the argument can hold: itself, or (a variable) every assignment that may still hold here
				type cand struct {
					e   ast.Expr
					pos token.Pos
				}
				cands := []cand{{call.Args[0], call.Pos()}}
				if id, isId := ast.Unparen(call.Args[0]).(*ast.Ident); isId {
					ri := reachingDefs(info, fd.Body)
					if ds := ri.mayReach(info.ObjectOf(id), call); len(ds) > 0 {
						cands = nil
						for _, d := range ds {
							if d.def.rhs == nil {
								continue // var x T / x++: nothing stored by this one
							}
							if d.def.n > 1 {
								cands = append(cands, cand{d.def.rhs, d.stmt.Pos()}) // x, err := f(): judged as the call
							} else {
								cands = append(cands, cand{d.def.rhs, d.stmt.Pos()})
							}
						}
					}
				}
				sort.Slice(cands, func(i, j int) bool { return cands[i].pos < cands[j].pos })
				for _, cd := range cands {
					nCursor++
					key := base
					if cursorSeen[base] > 0 {
						key = fmt.Sprintf("%s#%d", base, cursorSeen[base]+1)
					}
					cursorSeen[base]++
					arg := cd.e
					// copying the cursor of another state (fork upgrade) or zero-initialising it is not an advance
					if derivesFromCall(info, arg, defs, "NextWithdrawalValidatorIndex") && !containsArith(resolveLocal(info, arg, defs, 4)) {
						c.ok(key, cd.pos, "cursor copied from NextWithdrawalValidatorIndex()")
						continue
					}
					if tv, ok := info.Types[arg]; ok && tv.Value != nil {
						c.ok(key, cd.pos, "constant cursor")
						continue
					}
					_, m, okMod := isModOf(info, arg, defs)
					switch {
					case !okMod:
						c.bad(key, cd.pos, "%s stores `%s` as the next withdrawal validator index without reducing it modulo the validator count: after the last validator the sweep cursor points past the registry", fname, types.ExprString(arg))
					case !derivesFromCall(info, m, defs, "ValidatorCount"):
						c.bad(key, cd.pos, "%s reduces the withdrawal cursor modulo `%s`, which is not the registry's ValidatorCount()", fname, types.ExprString(m))
					default:
						c.ok(key, cd.pos, "cursor reduced modulo ValidatorCount()")
					}
				}
				return true
			})
		}

		// (c) self-advanced validator-index variables (sweeps)
		ast.Inspect(fd.Body, func(n ast.Node) bool {
			as, ok := n.(*ast.AssignStmt)
			if !ok || as.Tok != token.ASSIGN || len(as.Lhs) != 1 || len(as.Rhs) != 1 {
				return true
			}
			id, ok := as.Lhs[0].(*ast.Ident)
			if !ok {
				return true
			}
			obj := info.ObjectOf(id)
			nt := namedOf(info.TypeOf(id))
			if obj == nil || nt == nil || nt.Obj().Name() != "ValidatorIndex" {
				return true
			}
			if !mentionsObj(info, as.Rhs[0], obj) || !containsArith(as.Rhs[0]) {
				return true
			}
			// only sweeps over the registry: the function must know the registry size
			knowsCount := false
			ast.Inspect(fd.Body, func(m ast.Node) bool {
				if call, ok := m.(*ast.CallExpr); ok {
					if f := calleeFunc(info, call); f != nil && f.Name() == "ValidatorCount" {
						knowsCount = true
					}
				}
				return !knowsCount
			})
			if !knowsCount {
				return true
			}
			nSweep++
			key := fname + "@advance:" + id.Name
			_, m, okMod := isModOf(info, as.Rhs[0], defs)
			switch {
			case !okMod:
				c.bad(key, as.Pos(), "%s advances the validator index `%s` without wrapping modulo the validator count", fname, id.Name)
			case !derivesFromCall(info, m, defs, "ValidatorCount"):
				c.bad(key, as.Pos(), "%s wraps `%s` modulo `%s`, which is not the registry's ValidatorCount()", fname, id.Name, types.ExprString(m))
			default:
				c.ok(key, as.Pos(), "advance wraps modulo ValidatorCount()")
			}
			return true
		})
	})
	c.stat("ring_view_accesses", nViews)
	c.stat("cursor_stores", nCursor)
	c.stat("sweep_advances", nSweep)
	if nViews < 6 {
		anchorFail("ring.mod: expected >=6 ring-view Get/Set sites (slashings, roots, mixes), found %d", nViews)
	}
	if nCursor < 1 {
		// (two stores on the reviewed tree; a single exit that stores either value is the same code)
		anchorFail("ring.mod: expected a value stored through SetNextWithdrawalValidatorIndex in transition code, found %d", nCursor)
	}
}

func containsArith(e ast.Expr) bool {
	found := false
	ast.Inspect(e, func(n ast.Node) bool {
		if be, ok := n.(*ast.BinaryExpr); ok {
			switch be.Op {
			case token.ADD, token.SUB, token.MUL, token.QUO, token.REM:
				found = true
			}
		}
		return !found
	})
	return found
}

func embedsVectorView(t types.Type) bool {
	if p, ok := t.(*types.Pointer); ok {
		t = p.Elem()
	}
	nt := namedOf(t)
	if nt == nil {
		return false
	}
	st, ok := nt.Underlying().(*types.Struct)
	if !ok {
		return false
	}
	for i := 0; i < st.NumFields(); i++ {
		f := st.Field(i)
		if !f.Embedded() {
			continue
		}
		if en := namedOf(f.Type()); en != nil && strings.HasSuffix(en.Obj().Name(), "VectorView") {
			return true
		}
	}
	return false
}

func isRecvVectorLength(info *types.Info, e ast.Expr, recv types.Object) bool {
	sel, ok := ast.Unparen(e).(*ast.SelectorExpr)
	if !ok || sel.Sel.Name != "VectorLength" {
		return false
	}
	id, ok := ast.Unparen(sel.X).(*ast.Ident)
	return ok && info.ObjectOf(id) == recv
}

func ruleChurnFlow(c *Ctx) {
	nFuncs := 0
	c.P.funcDecls(func(pk *packages.Package, fd *ast.FuncDecl) {
		info := pk.TypesInfo
		if fd.Body == nil {
			return
		}
		fname := pkgShort(pk.Types) + "." + funcName(fd)
		defs := singleDefs(info, fd.Body)
		// variables defined from getValidatorActivationChurnLimit(...)
		capped := map[types.Object]token.Pos{}
		ast.Inspect(fd.Body, func(n ast.Node) bool {
			as, ok := n.(*ast.AssignStmt)
			if !ok || len(as.Lhs) != 1 || len(as.Rhs) != 1 {
				return true
			}
			// the capped limit: the helper's result, or the spec's min(MAX_PER_EPOCH_ACTIVATION_CHURN_LIMIT, …) written out
			isCap := false
			if call, ok := ast.Unparen(as.Rhs[0]).(*ast.CallExpr); ok {
				if f := calleeFunc(info, call); f != nil && strings.EqualFold(f.Name(), "getValidatorActivationChurnLimit") {
					isCap = true
				}
			}
			ast.Inspect(as.Rhs[0], func(k ast.Node) bool {
				if sel, ok := k.(*ast.SelectorExpr); ok && sel.Sel.Name == "MAX_PER_EPOCH_ACTIVATION_CHURN_LIMIT" {
					isCap = true
				}
				return !isCap
			})
			if isCap && !strings.EqualFold(funcName(fd), "getValidatorActivationChurnLimit") {
				if id, ok := as.Lhs[0].(*ast.Ident); ok {
					capped[info.ObjectOf(id)] = as.Pos()
				}
			}
			return true
		})
		if len(capped) == 0 {
			return
		}
		// the cap may be formed in steps (limit := uint64(MAX…); churn = min(churn, limit)): a variable assigned from
		// an expression that mentions a capped variable carries the cap on, and the variable it was formed from has
		// done its part there
		feeds := map[*ast.Ident]bool{}
		for round := 0; round < 3; round++ {
			ast.Inspect(fd.Body, func(n ast.Node) bool {
				as, ok := n.(*ast.AssignStmt)
				if !ok || len(as.Lhs) != 1 || len(as.Rhs) != 1 {
					return true
				}
				lid, ok := as.Lhs[0].(*ast.Ident)
				if !ok {
					return true
				}
				var through []*ast.Ident
				ast.Inspect(as.Rhs[0], func(k ast.Node) bool {
					if id, ok := k.(*ast.Ident); ok {
						if _, is := capped[info.ObjectOf(id)]; is && info.ObjectOf(id) != info.ObjectOf(lid) {
							through = append(through, id)
						}
					}
					return true
				})
				if len(through) == 0 {
					return true
				}
				// (only arithmetic / min / max / conversions carry a limit on: not a call that takes it as an argument)
				carries := true
				ast.Inspect(as.Rhs[0], func(k ast.Node) bool {
					if call, ok := k.(*ast.CallExpr); ok && !isConversion(info, call) {
						if fid, ok := ast.Unparen(call.Fun).(*ast.Ident); !ok || (fid.Name != "min" && fid.Name != "max") {
							carries = false
						}
					}
					return carries
				})
				if !carries {
					return true
				}
				for _, id := range through {
					feeds[id] = true
				}
				if p, had := capped[info.ObjectOf(lid)]; !had || as.Pos() > p {
					capped[info.ObjectOf(lid)] = as.Pos()
				}
				return true
			})
		}
		nFuncs++
		parents := parentMap(fd.Body)
		fromQueue := func(e ast.Expr) bool {
			// e (or the local it names) derives from the IndicesToMaybeActivate queue
			for depth := 0; depth < 5; depth++ {
				e = stripConv(info, ast.Unparen(e))
				switch x := e.(type) {
				case *ast.CallExpr:
					if id, ok := x.Fun.(*ast.Ident); ok && id.Name == "len" && len(x.Args) == 1 {
						e = x.Args[0]
						continue
					}
					return false
				case *ast.SelectorExpr:
					return x.Sel.Name == "IndicesToMaybeActivate"
				case *ast.SliceExpr:
					e = x.X
				case *ast.Ident:
					obj := info.ObjectOf(x)
					// the queue variable is re-sliced (dequeued = dequeued[:limit]); take its first definition
					var first ast.Expr
					ast.Inspect(fd.Body, func(n ast.Node) bool {
						if as, ok := n.(*ast.AssignStmt); ok && first == nil && as.Tok == token.DEFINE {
							for i, l := range as.Lhs {
								if lid, ok := l.(*ast.Ident); ok && info.ObjectOf(lid) == obj && i < len(as.Rhs) {
									first = as.Rhs[i]
								}
							}
						}
						return first == nil
					})
					if first == nil {
						return false
					}
					e = first
				default:
					return false
				}
			}
			return false
		}
		_ = defs
		for obj, defPos := range capped {
			uses, good := 0, 0
			ast.Inspect(fd.Body, func(n ast.Node) bool {
				id, ok := n.(*ast.Ident)
				if !ok || info.ObjectOf(id) != obj || id.Pos() <= defPos+token.Pos(len(id.Name)) && info.Defs[id] != nil {
					return true
				}
				if info.Defs[id] != nil || feeds[id] {
					return true
				}
				// the capping step itself (limit = min(limit, cap)): the variable on both sides
				selfStep := false
				for q := parents[ast.Node(id)]; q != nil; q = parents[q] {
					if as, ok := q.(*ast.AssignStmt); ok {
						if len(as.Lhs) == 1 {
							if lid, ok := as.Lhs[0].(*ast.Ident); ok && info.ObjectOf(lid) == obj {
								selfStep = true
							}
						}
						break
					}
					if _, ok := q.(ast.Stmt); ok {
						break
					}
				}
				if selfStep {
					return true
				}
				uses++
				key := fname + "@use:" + obj.Name()
				// climb through conversions/parentheses to the construct that consumes the value
				var cur ast.Node = id
				par := parents[cur]
				for {
					switch px := par.(type) {
					case *ast.ParenExpr:
						cur, par = px, parents[px]
						continue
					case *ast.CallExpr:
						if tv, ok := info.Types[px.Fun]; ok && tv.IsType() {
							cur, par = px, parents[px]
							continue
						}
						// min(cap, len(queue)): the bound of the queue itself, on its way to the reslice
						if fid, ok := px.Fun.(*ast.Ident); ok && fid.Name == "min" && len(px.Args) == 2 {
							if _, isB := info.ObjectOf(fid).(*types.Builtin); isB {
								other := px.Args[0]
								if ast.Unparen(px.Args[0]) == cur || px.Args[0] == cur {
									other = px.Args[1]
								}
								if fromQueue(other) {
									cur, par = px, parents[px]
									continue
								}
							}
						}
					}
					break
				}
				switch px := par.(type) {
				case *ast.BinaryExpr:
					other := px.X
					if px.X == cur {
						other = px.Y
					}
					if isOrdering(px.Op.String()) && fromQueue(other) {
						good++
						c.ok(key+"#cmp", id.Pos(), "compared with the activation queue length")
						return true
					}
					c.bad(key+"#cmp", id.Pos(), "%s uses the capped activation churn limit `%s` in `%s`, whose other operand is not the activation queue: the Deneb cap applies to activations only (exits/ejections use get_validator_churn_limit)", fname, obj.Name(), types.ExprString(px))
				case *ast.SliceExpr:
					if fromQueue(px.X) && px.X != cur {
						good++
						c.ok(key+"#slice", id.Pos(), "bounds the activation queue")
						return true
					}
					c.bad(key+"#slice", id.Pos(), "%s slices `%s` with the capped activation churn limit", fname, types.ExprString(px.X))
				default:
					c.bad(key+"#other", id.Pos(), "%s: capped activation churn limit `%s` flows somewhere other than the activation-queue bound", fname, obj.Name())
				}
				return true
			})
			if good == 0 && uses == 0 {
				fed := false
				for id := range feeds {
					if info.ObjectOf(id) == obj {
						fed = true
					}
				}
				if fed {
					continue // formed into another variable, which is judged in its turn
				}
			}
			if good == 0 {
				c.bad(fname+"@cap-applied", defPos, "%s computes the activation churn cap but never applies it to the activation queue", fname)
			} else {
				c.ok(fname+"@cap-applied", defPos, "cap bounds the activation queue (%d uses)", uses)
			}
		}
	})
	if nFuncs < 1 {
		anchorFail("churn.flow: no function defines a variable from getValidatorActivationChurnLimit")
	}
}
