package main

import (
	"go/ast"
	"go/token"
	"go/types"
	"strings"

	"golang.org/x/tools/go/packages"
)

func init() {
	register(&Rule{Name: "idx.units", Floor: 12,
		Doc: "in forkchoice/proto, NodeIndex values are absolute and positions in pr.nodes / deltas are relative (absolute - indexOffset): a NodeIndex-typed index into nodes/deltas must be an `x - pr.indexOffset` guarded by `x >= pr.indexOffset` (or sit in getNode); a NodeIndex stored into a node link or the indices map must be absolute (`pr.indexOffset + NodeIndex(rel)`, NONE or another absolute value)",
		Run: ruleIdxUnits})
	register(&Rule{Name: "loop.stuck", Floor: 10,
		Doc: "a slice index inside a loop must not be a counter that is initialised once and never advanced (the loop would visit the same element on every iteration)",
		Run: ruleLoopStuck})
	register(&Rule{Name: "prune.together", Floor: 4,
		Doc: "in OnPrune, for every entry deleted from indices the nodes slice loses one element at the front and indexOffset advances by one (per round of the deleting loop, or for the whole loop at once by its number of rounds), the sink is notified with the ref and canonical flag of that same node, and a nil sink does not prevent pruning",
		Run: rulePruneTogether})
}

func isNodeIndexType(t types.Type) bool {
	nt := namedOf(t)
	return nt != nil && nt.Obj().Name() == "NodeIndex"
}

func isRecvField(info *types.Info, e ast.Expr, recv types.Object, field string) bool {
	sel, ok := ast.Unparen(e).(*ast.SelectorExpr)
	if !ok || sel.Sel.Name != field {
		return false
	}
	id, ok := ast.Unparen(sel.X).(*ast.Ident)
	return ok && info.Uses[id] == recv
}

func ruleIdxUnits(c *Ctx) {
	pk := c.P.Pkg("eth2/forkchoice/proto")
	if pk == nil {
		anchorFail("package forkchoice/proto not loaded")
	}
	info := pk.TypesInfo
	nSites := 0
	for _, file := range pk.Syntax {
		for _, d := range file.Decls {
			fd, ok := d.(*ast.FuncDecl)
			if !ok || fd.Body == nil || fd.Recv == nil || len(fd.Recv.List[0].Names) != 1 {
				continue
			}
			if nt := namedOf(info.TypeOf(fd.Recv.List[0].Type)); nt == nil || nt.Obj().Name() != "ProtoArray" {
				continue
			}
			recv := info.Defs[fd.Recv.List[0].Names[0]]
			defs := singleDefs(info, fd.Body)
			parents := parentMap(fd.Body)
			// deltas parameter ([]SignedGwei)
			deltaParams := map[types.Object]bool{}
			for _, f := range fd.Type.Params.List {
				if sl, ok := info.TypeOf(f.Type).(*types.Slice); ok {
					if nt := namedOf(sl.Elem()); nt != nil && nt.Obj().Name() == "SignedGwei" {
						for _, n := range f.Names {
							deltaParams[info.Defs[n]] = true
						}
					}
				}
			}
			isSubOffset := func(e ast.Expr) (ast.Expr, bool) {
				e = ast.Unparen(e)
				if id, ok := e.(*ast.Ident); ok {
					if d, ok := defs[info.Uses[id]]; ok && d.pos == 0 {
						e = ast.Unparen(d.rhs)
					}
				}
				be, ok := e.(*ast.BinaryExpr)
				if !ok || be.Op != token.SUB {
					return nil, false
				}
				// pr.indexOffset itself, or a local that merely names it (offset := pr.indexOffset)
				sub := resolveLocal(info, be.Y, defs, 3)
				if !isRecvField(info, be.Y, recv, "indexOffset") && !isRecvField(info, sub, recv, "indexOffset") {
					return nil, false
				}
				return be.X, true
			}
			ast.Inspect(fd.Body, func(n ast.Node) bool {
				ix, ok := n.(*ast.IndexExpr)
				if !ok {
					return true
				}
				target := ""
				if isRecvField(info, ix.X, recv, "nodes") {
					target = "nodes"
				} else if id, ok := ast.Unparen(ix.X).(*ast.Ident); ok && deltaParams[info.Uses[id]] {
					target = id.Name
				}
				if target == "" {
					return true
				}
				nSites++
				key := "proto.ProtoArray." + fd.Name.Name + ":" + target + "[" + types.ExprString(ix.Index) + "]"
				it := info.TypeOf(ix.Index)
				if !isNodeIndexType(it) {
					c.ok(key, ix.Pos(), "relative position (%s loop counter / length based)", it)
					return true
				}
				abs, isSub := isSubOffset(ix.Index)
				if !isSub {
					c.bad(key, ix.Pos(), "%s is indexed with the absolute NodeIndex %s; positions in %s are relative to pr.indexOffset (wrong node, or out of range, once anything was pruned)", target, types.ExprString(ix.Index), target)
					return true
				}
				if fd.Name.Name == "getNode" {
					// getNode is the guarded accessor itself: must test index < offset before subtracting
					// (the comparisons that hold on the way to the indexing, in any spelling: an early refusal of
					// index < offset, an enclosing `if index >= offset`, …)
					guarded := false
					if pa, ok := exprPoly(info, abs, nil, nil, 0); ok {
						if sub, ok := ast.Unparen(resolveLocal(info, ix.Index, defs, 2)).(*ast.BinaryExpr); ok {
							if po, ok := exprPoly(info, sub.Y, nil, nil, 0); ok {
								for _, f := range pathFactsAt(parentMap(fd.Body), ix) {
									if factSays(info, f, pa, po, token.GEQ) {
										guarded = true
									}
								}
							}
						}
					}
					if guarded {
						c.ok(key, ix.Pos(), "getNode: subtracts the offset after testing index < indexOffset")
					} else {
						c.bad(key, ix.Pos(), "getNode subtracts indexOffset without first refusing index < indexOffset (unsigned wrap)")
					}
					return true
				}
				absStr := types.ExprString(abs)
				// the comparisons that hold on the way to the indexing (boolean helpers of the package read as what they
				// test): one of them says abs >= pr.indexOffset, in any spelling
				guarded := false
				if pa, ok := exprPoly(info, abs, nil, nil, 0); ok {
					if sub, ok := ast.Unparen(resolveLocal(info, ix.Index, defs, 2)).(*ast.BinaryExpr); ok {
						if po, ok := exprPoly(info, sub.Y, nil, nil, 0); ok {
							for _, gf := range guardFacts(c.P, pk, parents, ix) {
								if gf.says(info, pa, po, token.GEQ) {
									guarded = true
								}
							}
						}
						// (the offset kept in a local: offset := pr.indexOffset)
						if po, ok := exprPoly(info, sub.Y, defs, nil, 0); ok && !guarded {
							for _, gf := range guardFacts(c.P, pk, parents, ix) {
								if gf.says(info, pa, po, token.GEQ) {
									guarded = true
								}
							}
						}
					}
				}
				if !guarded {
					// induction variable of an enclosing loop that starts at pr.indexOffset and only increases
					if aid, ok := ast.Unparen(abs).(*ast.Ident); ok {
						for p := parents[ast.Node(ix)]; p != nil; p = parents[p] {
							fs, ok := p.(*ast.ForStmt)
							if !ok {
								continue
							}
							init, ok1 := fs.Init.(*ast.AssignStmt)
							post, ok2 := fs.Post.(*ast.IncDecStmt)
							if ok1 && ok2 && len(init.Lhs) == 1 && len(init.Rhs) == 1 && post.Tok == token.INC {
								if lid, ok := init.Lhs[0].(*ast.Ident); ok && info.Defs[lid] == info.Uses[aid] && isRecvField(info, init.Rhs[0], recv, "indexOffset") {
									if pid, ok := post.X.(*ast.Ident); ok && info.Uses[pid] == info.Uses[aid] {
										guarded = true
									}
								}
							}
						}
					}
				}
				if guarded {
					c.ok(key, ix.Pos(), "relative form, guarded by %s >= pr.indexOffset", absStr)
				} else {
					c.bad(key, ix.Pos(), "%s - pr.indexOffset is not guarded by %s >= pr.indexOffset: when that node was pruned the unsigned subtraction wraps and the index is out of range", absStr, absStr)
				}
				return true
			})
			// parent links handed to other ProtoArray methods: the parent may have been pruned
			ast.Inspect(fd.Body, func(n ast.Node) bool {
				call, ok := n.(*ast.CallExpr)
				if !ok {
					return true
				}
				sel, ok := call.Fun.(*ast.SelectorExpr)
				if !ok {
					return true
				}
				if id, ok := ast.Unparen(sel.X).(*ast.Ident); !ok || info.Uses[id] != recv {
					return true
				}
				for _, a := range call.Args {
					as, ok := ast.Unparen(a).(*ast.SelectorExpr)
					if !ok || (as.Sel.Name != "ForkchoiceParent" && as.Sel.Name != "TransitionParent") || !isNodeIndexType(info.TypeOf(as)) {
						continue
					}
					nSites++
					aStr := types.ExprString(as)
					key := "proto.ProtoArray." + fd.Name.Name + ":" + sel.Sel.Name + "(" + aStr + ")"
					guarded := false
					if pa, ok := exprPoly(info, as, nil, nil, 0); ok {
						po := polyAtom(strings.ReplaceAll(exprText(info, &ast.SelectorExpr{X: sel.X, Sel: ast.NewIdent("indexOffset")}), " ", ""))
						for _, gf := range guardFacts(c.P, pk, parents, call) {
							if gf.says(info, pa, po, token.GEQ) {
								guarded = true
							}
						}
					}
					if guarded {
						c.ok(key, call.Pos(), "parent link guarded by >= pr.indexOffset")
					} else {
						c.bad(key, call.Pos(), "parent link %s is passed on without testing %s >= pr.indexOffset: once the parent is pruned the callee's getNode fails and the whole update returns an error", aStr, aStr)
					}
				}
				return true
			})
			// absolute stores
			linkFields := map[string]bool{"TransitionParent": true, "ForkchoiceParent": true, "BestChild": true, "BestDescendant": true}
			checkAbs := func(what string, e ast.Expr, pos token.Pos) {
				// a bare NodeIndex(<non-NodeIndex expr>) not added to indexOffset is a relative value
				var bare ast.Expr
				var walk func(e ast.Expr, underAdd bool)
				walk = func(e ast.Expr, underAdd bool) {
					e = ast.Unparen(e)
					switch x := e.(type) {
					case *ast.BinaryExpr:
						add := x.Op == token.ADD && (isRecvField(info, x.X, recv, "indexOffset") || isRecvField(info, x.Y, recv, "indexOffset"))
						walk(x.X, underAdd || add)
						walk(x.Y, underAdd || add)
					case *ast.CallExpr:
						if isConversion(info, x) && len(x.Args) == 1 && isNodeIndexType(info.TypeOf(x.Fun)) && !isNodeIndexType(info.TypeOf(x.Args[0])) {
							if tv := info.Types[x.Args[0]]; tv.Value != nil {
								return // constant
							}
							if !underAdd {
								bare = x
							}
						}
					case *ast.Ident:
						if isNodeIndexType(info.TypeOf(x)) {
							// the latest definition before this use (locals such as nodeIndex are re-assigned)
							if rhs, idx := lastDefBefore(info, fd, info.Uses[x], pos); rhs != nil && idx == 0 {
								if _, isMapLookup := ast.Unparen(rhs).(*ast.IndexExpr); !isMapLookup {
									walk(rhs, underAdd)
								}
							}
						}
					}
				}
				walk(e, false)
				key := "proto.ProtoArray." + fd.Name.Name + ":" + what + "=" + types.ExprString(e)
				if bare != nil {
					c.bad(key, pos, "%s receives %s, a position relative to the live window, where an absolute NodeIndex (pr.indexOffset + rel) is required", what, types.ExprString(bare))
				} else {
					c.ok(key, pos, "absolute")
				}
			}
			ast.Inspect(fd.Body, func(n ast.Node) bool {
				switch x := n.(type) {
				case *ast.AssignStmt:
					for i, l := range x.Lhs {
						if i >= len(x.Rhs) {
							break
						}
						if sel, ok := ast.Unparen(l).(*ast.SelectorExpr); ok && linkFields[sel.Sel.Name] && isNodeIndexType(info.TypeOf(sel)) {
							nSites++
							checkAbs(sel.Sel.Name, x.Rhs[i], x.Pos())
						}
						if ixl, ok := ast.Unparen(l).(*ast.IndexExpr); ok && isRecvField(info, ixl.X, recv, "indices") {
							nSites++
							checkAbs("indices[]", x.Rhs[i], x.Pos())
						}
					}
				case *ast.CompositeLit:
					if nt := namedOf(info.TypeOf(x)); nt != nil && nt.Obj().Name() == "ProtoNode" {
						for _, el := range x.Elts {
							if kv, ok := el.(*ast.KeyValueExpr); ok {
								if k, ok := kv.Key.(*ast.Ident); ok && linkFields[k.Name] {
									nSites++
									checkAbs(k.Name, kv.Value, kv.Pos())
								}
							}
						}
					}
				}
				return true
			})
		}
	}
	// functions outside ProtoArray that position into a per-node delta slice (the vote store): the slice has one entry per
	// live node, so a NodeIndex (absolute) must be made relative to the lowest live index before it is used as a position
	for _, file := range pk.Syntax {
		for _, d := range file.Decls {
			fd, ok := d.(*ast.FuncDecl)
			if !ok || fd.Body == nil {
				continue
			}
			if fd.Recv != nil {
				if nt := namedOf(info.TypeOf(fd.Recv.List[0].Type)); nt != nil && nt.Obj().Name() == "ProtoArray" {
					continue
				}
			}
			name := funcName(fd)
			// running minima: locals lowered to min(m, v) inside a range over a map[..]NodeIndex (the branch form
			// `if v < m { m = v }` is that same statement after load), here or in a helper that returns such a local
			minOf := runningMins(info, fd.Body)
			for o, d := range singleDefs(info, fd.Body) {
				call, ok := ast.Unparen(d.rhs).(*ast.CallExpr)
				if !ok || d.pos != 0 {
					continue
				}
				f := calleeFunc(info, call)
				if f == nil || f.Pkg() != pk.Types {
					continue
				}
				hd := declOfFunc(pk, f)
				if hd == nil || hd.Body == nil || hd.Type.Results == nil || len(hd.Type.Results.List) != 1 {
					continue
				}
				hm := runningMins(info, hd.Body)
				// every return of the helper hands out the same running minimum over one of its parameters
				var ret types.Object
				okAll, any := true, false
				ast.Inspect(hd.Body, func(n ast.Node) bool {
					if _, isLit := n.(*ast.FuncLit); isLit {
						return false
					}
					if r, ok := n.(*ast.ReturnStmt); ok {
						any = true
						var ro types.Object
						if len(r.Results) == 1 {
							if id, isId := ast.Unparen(r.Results[0]).(*ast.Ident); isId {
								ro = info.Uses[id]
							}
						}
						if ro == nil || hm[ro] == "" || (ret != nil && ret != ro) {
							okAll = false
						} else {
							ret = ro
						}
					}
					return true
				})
				if !okAll || !any || ret == nil {
					continue
				}
				pi := 0
				for _, fl := range hd.Type.Params.List {
					for _, nm := range fl.Names {
						if nm.Name == hm[ret] && pi < len(call.Args) {
							minOf[o] = types.ExprString(call.Args[pi])
						}
						pi++
					}
				}
			}
			ast.Inspect(fd.Body, func(n ast.Node) bool {
				ix, ok := n.(*ast.IndexExpr)
				if !ok {
					return true
				}
				sl, ok := info.TypeOf(ix.X).Underlying().(*types.Slice)
				if !ok {
					return true
				}
				if nt := namedOf(sl.Elem()); nt == nil || nt.Obj().Name() != "SignedGwei" {
					return true
				}
				nSites++
				key := "proto." + name + ":" + types.ExprString(ix.X) + "[" + types.ExprString(ix.Index) + "]"
				if !isNodeIndexType(info.TypeOf(ix.Index)) {
					c.ok(key, ix.Pos(), "relative position")
					return true
				}
				be, ok := ast.Unparen(ix.Index).(*ast.BinaryExpr)
				if !ok || be.Op != token.SUB {
					c.bad(key, ix.Pos(), "%s has one entry per live node but is positioned with the absolute NodeIndex %s: wrong node (or out of range) once anything was pruned", types.ExprString(ix.X), types.ExprString(ix.Index))
					return true
				}
				if sub, ok := ast.Unparen(be.Y).(*ast.Ident); ok {
					if m, ok := minOf[info.Uses[sub]]; ok {
						c.ok(key, ix.Pos(), "relative to %s, the minimum over %s (all absolute indices in that map are >= it)", sub.Name, m)
						return true
					}
				}
				c.bad(key, ix.Pos(), "%s is subtracted from the index, but it is not shown to be the lowest live node index", types.ExprString(be.Y))
				return true
			})
		}
	}
	c.stat("index_and_store_sites", nSites)
}

// runningMins: locals m that a range over a map lowers with `m = min(m, v)` (either argument order), v the ranged value;
// the result maps each to the text of the ranged map.
func runningMins(info *types.Info, body *ast.BlockStmt) map[types.Object]string {
	out := map[types.Object]string{}
	ast.Inspect(body, func(n ast.Node) bool {
		rs, ok := n.(*ast.RangeStmt)
		if !ok || rs.Value == nil {
			return true
		}
		if _, isMap := info.TypeOf(rs.X).Underlying().(*types.Map); !isMap {
			return true
		}
		vid, ok := rs.Value.(*ast.Ident)
		if !ok {
			return true
		}
		ast.Inspect(rs.Body, func(m ast.Node) bool {
			as, ok := m.(*ast.AssignStmt)
			if !ok || as.Tok != token.ASSIGN || len(as.Lhs) != 1 || len(as.Rhs) != 1 {
				return true
			}
			l, ok := as.Lhs[0].(*ast.Ident)
			call, ok2 := ast.Unparen(as.Rhs[0]).(*ast.CallExpr)
			if !ok || !ok2 || len(call.Args) != 2 {
				return true
			}
			fid, ok := call.Fun.(*ast.Ident)
			if !ok || fid.Name != "min" {
				return true
			}
			if _, isBuiltin := info.ObjectOf(fid).(*types.Builtin); !isBuiltin {
				return true
			}
			a0, ok0 := ast.Unparen(call.Args[0]).(*ast.Ident)
			a1, ok1 := ast.Unparen(call.Args[1]).(*ast.Ident)
			if !ok0 || !ok1 {
				return true
			}
			lo := info.ObjectOf(l)
			if (info.Uses[a0] == lo && info.Uses[a1] == info.Defs[vid]) || (info.Uses[a1] == lo && info.Uses[a0] == info.Defs[vid]) {
				out[lo] = types.ExprString(rs.X)
			}
			return true
		})
		return true
	})
	return out
}

func declOfFunc(pk *packages.Package, f *types.Func) *ast.FuncDecl {
	for _, file := range pk.Syntax {
		for _, d := range file.Decls {
			if fd, ok := d.(*ast.FuncDecl); ok && pk.TypesInfo.Defs[fd.Name] == f {
				return fd
			}
		}
	}
	return nil
}

func ruleLoopStuck(c *Ctx) {
	loops := 0
	c.P.funcDecls(func(pk *packages.Package, fd *ast.FuncDecl) {
		info := pk.TypesInfo
		// locals initialised by a constant and never modified again
		type cand struct {
			obj types.Object
			pos token.Pos
		}
		assignCount := map[types.Object]int{}
		constInit := map[types.Object]bool{}
		ast.Inspect(fd.Body, func(n ast.Node) bool {
			switch x := n.(type) {
			case *ast.AssignStmt:
				for i, l := range x.Lhs {
					id, ok := l.(*ast.Ident)
					if !ok {
						continue
					}
					o := info.Defs[id]
					if o == nil {
						o = info.Uses[id]
					}
					if o == nil {
						continue
					}
					assignCount[o]++
					if x.Tok == token.DEFINE && i < len(x.Rhs) && len(x.Lhs) == len(x.Rhs) {
						if tv := info.Types[x.Rhs[i]]; tv.Value != nil {
							constInit[o] = true
						}
					}
				}
			case *ast.IncDecStmt:
				if id, ok := x.X.(*ast.Ident); ok {
					if o := info.Uses[id]; o != nil {
						assignCount[o] += 2
					}
				}
			case *ast.UnaryExpr:
				if x.Op == token.AND {
					if id, ok := ast.Unparen(x.X).(*ast.Ident); ok {
						if o := info.Uses[id]; o != nil {
							assignCount[o] += 2
						}
					}
				}
			}
			return true
		})
		ast.Inspect(fd.Body, func(n ast.Node) bool {
			var body *ast.BlockStmt
			switch x := n.(type) {
			case *ast.ForStmt:
				body = x.Body
			case *ast.RangeStmt:
				body = x.Body
			default:
				return true
			}
			loops++
			key := pkgShort(pk.Types) + "." + funcName(fd) + "@loop"
			bad := false
			ast.Inspect(body, func(m ast.Node) bool {
				ix, ok := m.(*ast.IndexExpr)
				if !ok || bad {
					return true
				}
				if _, isSlice := info.TypeOf(ix.X).Underlying().(*types.Slice); !isSlice {
					return true
				}
				id, ok := ast.Unparen(ix.Index).(*ast.Ident)
				if !ok {
					return true
				}
				o := info.Uses[id]
				if o == nil || !constInit[o] || assignCount[o] != 1 {
					return true
				}
				if o.Pos() > n.Pos() {
					return true // declared inside the loop
				}
				bad = true
				c.bad(key+":"+types.ExprString(ix), ix.Pos(), "%s is initialised once (%s) and never advanced, so every iteration of the loop addresses the same element %s", id.Name, c.P.rel(o.Pos()), types.ExprString(ix))
				return true
			})
			if !bad && (pk.Types.Name() == "proto" || pk.Types.Name() == "forkchoice" || pk.Types.Name() == "pool") {
				c.ok(key, n.Pos(), "no stuck index")
			}
			return true
		})
	})
	c.stat("loops_examined", loops)
}

func rulePruneTogether(c *Ctx) {
	pk, fd := c.P.mustFunc("eth2/forkchoice/proto", "ProtoArray.OnPrune")
	info := pk.TypesInfo
	recv := info.Defs[fd.Recv.List[0].Names[0]]
	// the pruning loop: the one that deletes from pr.indices. For every entry it deletes, the nodes slice loses one
	// element at the front and the offset advances by one: per round (nodes[1:], offset++) or for the whole loop at once
	// (nodes[k:], offset += k, k the number of rounds), in any mix.
	var pruneLoop ast.Node
	var loopBody *ast.BlockStmt
	ast.Inspect(fd.Body, func(n ast.Node) bool {
		var body *ast.BlockStmt
		switch x := n.(type) {
		case *ast.ForStmt:
			body = x.Body
		case *ast.RangeStmt:
			body = x.Body
		default:
			return true
		}
		ast.Inspect(body, func(m ast.Node) bool {
			if call, ok := m.(*ast.CallExpr); ok {
				if id, ok := call.Fun.(*ast.Ident); ok && id.Name == "delete" && len(call.Args) == 2 && isRecvField(info, call.Args[0], recv, "indices") {
					pruneLoop, loopBody = n, body
				}
			}
			return true
		})
		return true
	})
	if pruneLoop == nil {
		anchorFail("OnPrune: pruning loop (the one deleting from indices) not found")
	}
	defs := singleDefs(info, fd.Body)
	// rounds of the loop
	var rounds Poly
	switch x := pruneLoop.(type) {
	case *ast.RangeStmt:
		if se, ok := ast.Unparen(x.X).(*ast.SliceExpr); ok && se.High != nil && se.Low == nil {
			rounds, _ = exprPoly(info, se.High, defs, nil, 0)
		} else if p, ok := exprPoly(info, &ast.CallExpr{Fun: ast.NewIdent("len"), Args: []ast.Expr{x.X}}, nil, nil, 0); ok {
			rounds = p
		}
	case *ast.ForStmt:
		if be, ok := ast.Unparen(x.Cond).(*ast.BinaryExpr); ok && be.Op == token.LSS {
			if hi, ok := exprPoly(info, be.Y, defs, nil, 0); ok {
				if as, ok := x.Init.(*ast.AssignStmt); ok && len(as.Rhs) == 1 {
					if lo, ok := exprPoly(info, as.Rhs[0], defs, nil, 0); ok {
						rounds = polyAdd(hi, lo, -1)
					}
				}
			}
		}
	}
	inLoop := func(n ast.Node) bool { return loopBody.Pos() <= n.Pos() && n.End() <= loopBody.End() }
	// how much each of the two moves: 1 per round, or a total
	type move struct {
		perRound bool
		total    Poly
		found    bool
		what     string
	}
	var shrink, offset move
	ast.Inspect(fd.Body, func(m ast.Node) bool {
		switch st := m.(type) {
		case *ast.AssignStmt:
			for i, l := range st.Lhs {
				if i >= len(st.Rhs) {
					break
				}
				if isRecvField(info, l, recv, "nodes") {
					if se, ok := ast.Unparen(st.Rhs[i]).(*ast.SliceExpr); ok && se.Low != nil && se.High == nil && isRecvField(info, se.X, recv, "nodes") {
						if p, ok := exprPoly(info, se.Low, defs, nil, 0); ok {
							shrink.found, shrink.what = true, types.ExprString(st.Rhs[i])
							if k, isK := p.isConst(); inLoop(st) && isK && k == 1 {
								shrink.perRound = true
							} else if !inLoop(st) {
								shrink.total = p
							}
						}
					}
				}
				if isRecvField(info, l, recv, "indexOffset") && st.Tok == token.ADD_ASSIGN {
					if p, ok := exprPoly(info, st.Rhs[i], defs, nil, 0); ok {
						offset.found, offset.what = true, "+= "+types.ExprString(st.Rhs[i])
						if k, isK := p.isConst(); inLoop(st) && isK && k == 1 {
							offset.perRound = true
						} else if !inLoop(st) {
							offset.total = p
						}
					}
				}
			}
		case *ast.IncDecStmt:
			if isRecvField(info, st.X, recv, "indexOffset") && st.Tok == token.INC {
				offset.found, offset.what = true, "indexOffset++"
				if inLoop(st) {
					offset.perRound = true
				} else {
					offset.total = polyConst(1)
				}
			}
		}
		return true
	})
	good := func(mv move) bool {
		return mv.found && (mv.perRound || (mv.total != nil && rounds != nil && polyEq(mv.total, rounds)))
	}
	switch {
	case good(shrink) && good(offset):
		c.ok("OnPrune.bookkeeping", pruneLoop.Pos(), "per pruned node: delete(indices), nodes shrinks by one, indexOffset advances by one")
	case (shrink.found && !shrink.perRound && rounds == nil) || (offset.found && !offset.perRound && rounds == nil):
		c.unm("OnPrune.bookkeeping", pruneLoop.Pos(), "the number of rounds of the pruning loop is not readable")
	default:
		c.bad("OnPrune.bookkeeping", pruneLoop.Pos(), "for every entry deleted from indices the nodes slice must lose one element at the front and indexOffset advance by one; here nodes: %q, indexOffset: %q, rounds of the deleting loop: %v", shrink.what, offset.what, rounds)
	}
	// sink call: argument ref must come from the collected node, canonical from the same element
	// (in OnPrune itself or in an unexported method of the array that it calls)
	var sinkCall *ast.CallExpr
	sinkFd := fd
	sinkRecv := recv
	searchIn := []*ast.FuncDecl{fd}
	for round := 0; round < 2; round++ {
		for _, cf := range append([]*ast.FuncDecl{}, searchIn...) {
			ast.Inspect(cf.Body, func(n ast.Node) bool {
				if call, ok := n.(*ast.CallExpr); ok {
					if f := calleeFunc(info, call); f != nil && !f.Exported() && f.Pkg() == pk.Types {
						c.P.funcDecls(func(p2 *packages.Package, f2 *ast.FuncDecl) {
							if p2 == pk && f2.Body != nil && p2.TypesInfo.Defs[f2.Name] == f {
								for _, e := range searchIn {
									if e == f2 {
										return
									}
								}
								searchIn = append(searchIn, f2)
							}
						})
					}
				}
				return true
			})
		}
	}
	for _, cf := range searchIn {
		ast.Inspect(cf.Body, func(n ast.Node) bool {
			if call, ok := n.(*ast.CallExpr); ok && sinkCall == nil {
				if sel, ok := call.Fun.(*ast.SelectorExpr); ok && sel.Sel.Name == "OnPrunedNode" {
					sinkCall = call
					sinkFd = cf
					if cf.Recv != nil && len(cf.Recv.List) == 1 && len(cf.Recv.List[0].Names) == 1 {
						sinkRecv = info.Defs[cf.Recv.List[0].Names[0]]
					}
				}
			}
			return true
		})
	}
	if sinkCall == nil {
		c.bad("OnPrune.sink", fd.Pos(), "OnPrune never notifies the sink")
	} else if len(sinkCall.Args) == 3 {
		base := func(e ast.Expr) string {
			for {
				switch x := ast.Unparen(e).(type) {
				case *ast.SelectorExpr:
					e = x.X
				case *ast.Ident:
					return x.Name
				default:
					return types.ExprString(e)
				}
			}
		}
		if base(sinkCall.Args[1]) == base(sinkCall.Args[2]) {
			c.ok("OnPrune.sink", sinkCall.Pos(), "ref and canonical flag come from the same collected element %s", base(sinkCall.Args[1]))
		} else {
			c.bad("OnPrune.sink", sinkCall.Pos(), "sink receives ref from %s but canonical flag from %s", base(sinkCall.Args[1]), base(sinkCall.Args[2]))
		}
	}
	// nil sink: collection of to-be-pruned nodes must not be conditional on pr.sink != nil unless the sink call is
	parents := parentMap(fd.Body)
	var collect *ast.AssignStmt
	ast.Inspect(fd.Body, func(n ast.Node) bool {
		if as, ok := n.(*ast.AssignStmt); ok && len(as.Rhs) == 1 {
			if call, ok := ast.Unparen(as.Rhs[0]).(*ast.CallExpr); ok {
				if id, ok := call.Fun.(*ast.Ident); ok && id.Name == "append" && len(call.Args) >= 1 {
					if lid, ok := as.Lhs[0].(*ast.Ident); ok && types.ExprString(call.Args[0]) == lid.Name {
						if nt := info.TypeOf(as.Lhs[0]); nt != nil {
							if sl, ok := nt.Underlying().(*types.Slice); ok {
								if n2 := namedOf(sl.Elem()); n2 != nil && n2.Obj().Name() == "prunedNode" {
									collect = as
								}
							}
						}
					}
				}
			}
		}
		return true
	})
	if collect == nil {
		c.unm("OnPrune.nilsink", fd.Pos(), "collection of pruned nodes not recognised")
	} else {
		sinkGuard := func(cond ast.Expr, inBody bool) bool {
			be, ok := ast.Unparen(cond).(*ast.BinaryExpr)
			return ok && inBody && be.Op == token.NEQ && isRecvField(info, be.X, recv, "sink")
		}
		collectGuarded := guardedBy(parents, collect, sinkGuard)
		callGuarded := false
		if sinkCall != nil {
			sparents := parents
			if sinkFd != fd {
				sparents = parentMap(sinkFd.Body)
			}
			callGuarded = guardedBy(sparents, sinkCall, func(cond ast.Expr, inBody bool) bool {
				be, ok := ast.Unparen(cond).(*ast.BinaryExpr)
				return ok && inBody && be.Op == token.NEQ && isRecvField(info, be.X, sinkRecv, "sink")
			})
			// or known from what holds on the way to the call: an enclosing branch, an earlier `if sink == nil { leave }`
			// (the sink possibly read into a local first: sink := pr.sink)
			sdefs := singleDefs(info, sinkFd.Body)
			isSink := func(e ast.Expr) bool {
				if isRecvField(info, e, sinkRecv, "sink") {
					return true
				}
				if id, ok := ast.Unparen(e).(*ast.Ident); ok {
					if d, ok := sdefs[info.ObjectOf(id)]; ok && d.n == 1 && d.rhs != nil && isRecvField(info, d.rhs, sinkRecv, "sink") {
						return true
					}
				}
				return false
			}
			for _, pf := range pathFactsAt(sparents, sinkCall) {
				x, y := pf.be.X, pf.be.Y
				if isNilExpr(info, x) {
					x, y = y, x
				}
				if !isNilExpr(info, y) || !isSink(x) {
					continue
				}
				if (pf.be.Op == token.NEQ && !pf.neg) || (pf.be.Op == token.EQL && pf.neg) {
					callGuarded = true
				}
			}
		}
		switch {
		case collectGuarded:
			c.bad("OnPrune.nilsink", collect.Pos(), "nodes are only collected for pruning when pr.sink != nil: without a sink nothing is ever pruned (the array grows without bound and finalization never takes effect)")
		case sinkCall == nil:
			c.bad("OnPrune.nilsink", collect.Pos(), "the sink is never notified")
		case !callGuarded:
			c.bad("OnPrune.nilsink", sinkCall.Pos(), "pr.sink.OnPrunedNode is called without a nil check of pr.sink")
		default:
			c.ok("OnPrune.nilsink", collect.Pos(), "pruning does not depend on a sink being present; the sink call is nil-guarded")
		}
	}
	// the per-node element: index used to fetch the node inside the collection loop must depend on the loop variable
	var collectLoop *ast.ForStmt
	for p := parents[ast.Node(collect)]; collect != nil && p != nil; p = parents[p] {
		if f, ok := p.(*ast.ForStmt); ok {
			collectLoop = f
			break
		}
	}
	if collectLoop != nil {
		var loopVar types.Object
		if as, ok := collectLoop.Init.(*ast.AssignStmt); ok && len(as.Lhs) == 1 {
			if id, ok := as.Lhs[0].(*ast.Ident); ok {
				loopVar = info.Defs[id]
			}
		}
		usesLoopVar := false
		modified := map[types.Object]bool{}
		ast.Inspect(collectLoop.Body, func(m ast.Node) bool {
			if inc, ok := m.(*ast.IncDecStmt); ok {
				if id, ok := inc.X.(*ast.Ident); ok {
					modified[info.Uses[id]] = true
				}
			}
			if as, ok := m.(*ast.AssignStmt); ok && as.Tok != token.DEFINE {
				for _, l := range as.Lhs {
					if id, ok := l.(*ast.Ident); ok {
						modified[info.Uses[id]] = true
					}
				}
			}
			return true
		})
		ast.Inspect(collectLoop.Body, func(m ast.Node) bool {
			if ix, ok := m.(*ast.IndexExpr); ok && isRecvField(info, ix.X, recv, "nodes") {
				ast.Inspect(ix.Index, func(k ast.Node) bool {
					if id, ok := k.(*ast.Ident); ok {
						if o := info.Uses[id]; o != nil && (o == loopVar || modified[o]) {
							usesLoopVar = true
						}
					}
					return true
				})
			}
			return true
		})
		if usesLoopVar {
			c.ok("OnPrune.each-once", collectLoop.Pos(), "the node fetched in the collection loop depends on the loop position")
		} else {
			c.bad("OnPrune.each-once", collectLoop.Pos(), "the collection loop fetches pr.nodes[...] at a position that does not change between iterations: the same node is reported to the sink every time")
		}
	}
	// blockSlots: an entry stored before the pruning loop must not be deleted again inside it
	var storedKey ast.Expr
	ast.Inspect(fd.Body, func(n ast.Node) bool {
		if as, ok := n.(*ast.AssignStmt); ok && len(as.Lhs) == 1 {
			if ix, ok := ast.Unparen(as.Lhs[0]).(*ast.IndexExpr); ok && isRecvField(info, ix.X, recv, "blockSlots") {
				storedKey = ix.Index
			}
		}
		return true
	})
	var del *ast.CallExpr
	ast.Inspect(pruneLoop, func(n ast.Node) bool {
		if call, ok := n.(*ast.CallExpr); ok {
			if id, ok := call.Fun.(*ast.Ident); ok && id.Name == "delete" && len(call.Args) == 2 && isRecvField(info, call.Args[0], recv, "blockSlots") {
				del = call
			}
		}
		return true
	})
	if storedKey != nil && del != nil {
		k, e := types.ExprString(storedKey), types.ExprString(del.Args[1])
		if guardedBy(parents, del, func(cond ast.Expr, inBody bool) bool {
			be, ok := ast.Unparen(cond).(*ast.BinaryExpr)
			if !ok || !inBody || be.Op != token.NEQ {
				return false
			}
			x, y := types.ExprString(be.X), types.ExprString(be.Y)
			return x == e && y == k || x == k && y == e
		}) {
			c.ok("OnPrune.anchor-slot", del.Pos(), "blockSlots[%s] set for the anchor is excluded from deletion", k)
		} else if func() bool {
			// the same exclusion written as an early `continue` (or any condition known to hold where the delete stands)
			for _, pc := range pathCondsAt(parents, del) {
				be, ok := ast.Unparen(pc.e).(*ast.BinaryExpr)
				if !ok || (be.Op != token.NEQ && be.Op != token.EQL) {
					continue
				}
				x, y := types.ExprString(be.X), types.ExprString(be.Y)
				if !(x == e && y == k || x == k && y == e) {
					continue
				}
				if (be.Op == token.NEQ) != pc.neg {
					return true
				}
			}
			return false
		}() {
			c.ok("OnPrune.anchor-slot", del.Pos(), "blockSlots[%s] set for the anchor is excluded from deletion (the delete is only reached for another root)", k)
		} else {
			c.bad("OnPrune.anchor-slot", del.Pos(), "blockSlots[%s] is re-pointed at the anchor slot and then delete(blockSlots, %s) runs for every pruned node without excluding %s: pruned slot nodes of the anchor's own root remove the anchor's entry", k, e, k)
		}
	}
}
