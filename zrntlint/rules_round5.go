package main

import (
	"go/ast"
	"go/token"
	"go/types"
	"reflect"
	"strings"

	"golang.org/x/tools/go/packages"
)

func init() {
	register(&Rule{Name: "flag.refined", Floor: 1,
		Doc: "when a boolean local is defined as a STRENGTHENING of another boolean of the function (exists := ok && index < count), every later decision in that function tests the strengthened flag: a later `if !ok` lets through exactly the cases the refinement was written to exclude (a pubkey the shared cache knows from another chain, at an index outside this state's registry)",
		Run: ruleFlagRefined})
	register(&Rule{Name: "handle.kept", Floor: 1,
		Doc: "a method that returns the (possibly new) handle of a persistent structure next to an error — PubkeyCache.AddValidator returns the cache to use from now on, which is another object after a fork-out — has its first result stored back where the receiver came from; discarding it keeps the stale handle",
		Run: ruleHandleKept})
	register(&Rule{Name: "ops.loop", Floor: 4,
		Doc: "the per-block operation lists are processed one operation at a time: the function that processes a list ranges over it once and validates AND applies each operation inside that one loop (the spec's `for_ops(body.x, process_x)`); validating the whole list first and applying afterwards accepts a block that contains the same operation twice",
		Run: ruleOpsLoop})
	register(&Rule{Name: "node.copy", Floor: 0,
		Doc: "no tree node of ztyp is copied by value (next := *pairNode): the copy carries the node's memoised hash with it, so replacing a child of the copy leaves a root that describes the old contents",
		Run: ruleNodeCopy})
}

// ---------------------------------------------------------------------------------------------------------------

func ruleFlagRefined(c *Ctx) {
	n := 0
	c.P.funcDecls(func(pk *packages.Package, fd *ast.FuncDecl) {
		if fd.Body == nil || !strings.Contains(pk.PkgPath, "/eth2/") {
			return
		}
		info := pk.TypesInfo
		fname := pkgShort(pk.Types) + "." + funcName(fd)
		isBool := func(o types.Object) bool {
			if o == nil {
				return false
			}
			b, ok := o.Type().Underlying().(*types.Basic)
			return ok && b.Kind() == types.Bool
		}
		ast.Inspect(fd.Body, func(nd ast.Node) bool {
			as, ok := nd.(*ast.AssignStmt)
			if !ok || len(as.Lhs) != 1 || len(as.Rhs) != 1 {
				return true
			}
			lid, ok := as.Lhs[0].(*ast.Ident)
			if !ok || !isBool(info.ObjectOf(lid)) {
				return true
			}
			refined := info.ObjectOf(lid)
			parts := flattenBool(as.Rhs[0], token.LAND)
			if len(parts) < 2 {
				return true
			}
			for _, p := range parts {
				id, ok := ast.Unparen(p).(*ast.Ident)
				if !ok {
					continue
				}
				weak := info.ObjectOf(id)
				if !isBool(weak) || weak == refined {
					continue
				}
				if _, isVar := weak.(*types.Var); !isVar {
					continue
				}
				// only the `ok` of a lookup (x, ok := m[k] / f(k) / v.(T)): a computed flag may well be tested on its
				// own later (isMatchingSource next to isMatchingTarget), the hit of a lookup that was then narrowed may not
				isLookupFlag := false
				ast.Inspect(fd.Body, func(k ast.Node) bool {
					if a2, ok := k.(*ast.AssignStmt); ok && len(a2.Lhs) == 2 && len(a2.Rhs) == 1 {
						if l1, ok := a2.Lhs[1].(*ast.Ident); ok && info.ObjectOf(l1) == weak {
							isLookupFlag = true
						}
					}
					return !isLookupFlag
				})
				if !isLookupFlag {
					continue
				}
				n++
				key := fname + ":" + lid.Name + "<=" + id.Name
				// later tests of the weak flag (in a condition), while the refined one is in scope
				var late *ast.Ident
				ast.Inspect(fd.Body, func(k ast.Node) bool {
					var cond ast.Expr
					switch x := k.(type) {
					case *ast.IfStmt:
						cond = x.Cond
					case *ast.ForStmt:
						cond = x.Cond
					}
					if cond == nil || cond.Pos() < as.End() {
						return true
					}
					ast.Inspect(cond, func(m ast.Node) bool {
						if u, ok := m.(*ast.Ident); ok && info.ObjectOf(u) == weak && late == nil {
							late = u
						}
						return true
					})
					return true
				})
				if late != nil {
					c.bad(key, late.Pos(), "%s decides on `%s` after having refined it into `%s := %s`: the cases the refinement excludes (%s true, the rest false) take the branch meant for a plain hit", fname, id.Name, lid.Name, types.ExprString(as.Rhs[0]), id.Name)
				} else {
					c.ok(key, as.Pos(), "every later decision tests %s, not %s", lid.Name, id.Name)
				}
			}
			return true
		})
	})
	c.stat("refined_flags", n)
}

// ---------------------------------------------------------------------------------------------------------------

func ruleHandleKept(c *Ctx) {
	n := 0
	c.P.funcDecls(func(pk *packages.Package, fd *ast.FuncDecl) {
		if fd.Body == nil {
			return
		}
		info := pk.TypesInfo
		fname := pkgShort(pk.Types) + "." + funcName(fd)
		parents := parentMap(fd.Body)
		ast.Inspect(fd.Body, func(nd ast.Node) bool {
			call, ok := nd.(*ast.CallExpr)
			if !ok {
				return true
			}
			f := calleeFunc(info, call)
			if f == nil || !isZrnt(f) {
				return true
			}
			sig, ok := f.Type().(*types.Signature)
			if !ok || sig.Recv() == nil || sig.Results().Len() != 2 || !isErrorT(sig.Results().At(1).Type()) {
				return true
			}
			// first result has the receiver's own (pointer) type: a functional update
			if !types.Identical(sig.Results().At(0).Type(), sig.Recv().Type()) {
				return true
			}
			if _, isPtr := sig.Recv().Type().(*types.Pointer); !isPtr {
				return true
			}
			sel, ok := call.Fun.(*ast.SelectorExpr)
			if !ok {
				return true
			}
			// a call on the method's own receiver inside the type's methods (recursion, delegation) returns it upwards
			if r, ok := parents[call].(*ast.ReturnStmt); ok && len(r.Results) == 1 {
				return true
			}
			n++
			key := fname + "->" + qualName(f)
			as, ok := parents[call].(*ast.AssignStmt)
			if !ok || len(as.Lhs) != 2 {
				c.bad(key, call.Pos(), "the handle returned by %s is not kept", qualName(f))
				return true
			}
			if id, ok := as.Lhs[0].(*ast.Ident); ok && id.Name == "_" {
				c.bad(key, call.Pos(), "%s discards the handle returned by %s: after a fork-out the returned object is a NEW one, and %s keeps pointing at the old", fname, qualName(f), types.ExprString(sel.X))
				return true
			}
			// the handle must reach the place the receiver was read from
			recvText := types.ExprString(sel.X)
			stored := false
			if types.ExprString(as.Lhs[0]) == recvText {
				stored = true
			}
			if id, ok := as.Lhs[0].(*ast.Ident); ok {
				obj := info.ObjectOf(id)
				ast.Inspect(fd.Body, func(k ast.Node) bool {
					switch x := k.(type) {
					case *ast.AssignStmt:
						for i, l := range x.Lhs {
							if i < len(x.Rhs) && types.ExprString(l) == recvText {
								if rid, ok := ast.Unparen(x.Rhs[i]).(*ast.Ident); ok && info.ObjectOf(rid) == obj {
									stored = true
								}
							}
						}
					case *ast.ReturnStmt:
						for _, r := range x.Results {
							if rid, ok := ast.Unparen(r).(*ast.Ident); ok && info.ObjectOf(rid) == obj {
								stored = true // handed to the caller
							}
						}
					case *ast.KeyValueExpr:
						if rid, ok := ast.Unparen(x.Value).(*ast.Ident); ok && info.ObjectOf(rid) == obj {
							stored = true
						}
					}
					return true
				})
			}
			if stored {
				c.ok(key, call.Pos(), "returned handle installed in %s (or handed on)", recvText)
			} else {
				c.bad(key, call.Pos(), "the handle returned by %s is assigned but never installed in %s", qualName(f), recvText)
			}
			return true
		})
	})
	c.stat("functional_updates", n)
}

// ---------------------------------------------------------------------------------------------------------------

func ruleOpsLoop(c *Ctx) {
	n := 0
	c.P.funcDecls(func(pk *packages.Package, fd *ast.FuncDecl) {
		if fd.Body == nil || fd.Recv != nil || !strings.Contains(pk.PkgPath, "/eth2/beacon/") {
			return
		}
		name := fd.Name.Name
		if !strings.HasPrefix(name, "Process") || !strings.HasSuffix(name, "s") || strings.HasPrefix(name, "ProcessEpoch") {
			return
		}
		info := pk.TypesInfo
		// the list parameter: a slice (or named slice) of operations
		var listObj types.Object
		for _, f := range fd.Type.Params.List {
			if _, ok := info.TypeOf(f.Type).Underlying().(*types.Slice); ok {
				for _, nm := range f.Names {
					listObj = info.Defs[nm]
				}
			}
		}
		if listObj == nil {
			return
		}
		singular := strings.TrimSuffix(name, "s")
		if strings.HasSuffix(name, "Slashings") || strings.HasSuffix(name, "Deposits") || strings.HasSuffix(name, "Exits") || strings.HasSuffix(name, "Attestations") || strings.HasSuffix(name, "Changes") {
			// ok
		} else {
			return
		}
		fname := pkgShort(pk.Types) + "." + name
		// the list and what is derived from it by a local's only definition (its length, an alias, a remaining part)
		derived := map[types.Object]bool{listObj: true}
		defs := singleDefs(info, fd.Body)
		for round := 0; round < 3; round++ {
			for o, d := range defs {
				if derived[o] || d.rhs == nil {
					continue
				}
				for src := range derived {
					if mentions(info, d.rhs, src) {
						derived[o] = true
					}
				}
			}
		}
		// (a local that is re-assigned from itself, `pending = pending[1:]`, has two definitions: take the defining one)
		ast.Inspect(fd.Body, func(nd ast.Node) bool {
			if as, ok := nd.(*ast.AssignStmt); ok && as.Tok == token.DEFINE && len(as.Lhs) == len(as.Rhs) {
				for i, l := range as.Lhs {
					if id, ok := l.(*ast.Ident); ok && mentions(info, as.Rhs[i], listObj) {
						derived[info.Defs[id]] = true
					}
				}
			}
			return true
		})
		overList := func(nodes ...ast.Node) bool {
			for _, nd := range nodes {
				if nd == nil || reflect.ValueOf(nd).IsNil() {
					continue
				}
				for o := range derived {
					if e, ok := nd.(ast.Expr); ok && mentions(info, e, o) {
						return true
					}
					if st, ok := nd.(ast.Stmt); ok {
						hit := false
						ast.Inspect(st, func(k ast.Node) bool {
							if id, ok := k.(*ast.Ident); ok && info.ObjectOf(id) == o {
								hit = true
							}
							return !hit
						})
						if hit {
							return true
						}
					}
				}
			}
			return false
		}
		var loops []ast.Node
		ast.Inspect(fd.Body, func(nd ast.Node) bool {
			switch x := nd.(type) {
			case *ast.FuncLit:
				return false
			case *ast.RangeStmt:
				if overList(x.X) {
					loops = append(loops, x)
				}
			case *ast.ForStmt:
				if overList(x.Init, x.Cond, x.Post) {
					loops = append(loops, x)
				}
			}
			return true
		})
		n++
		key := fname + ".one-pass"
		switch {
		case len(loops) == 0:
			c.unm(key, fd.Pos(), "no loop over the operations")
		case len(loops) > 1:
			c.bad(key, loops[1].Pos(), "%s walks its operations %d times: the spec processes each operation completely (checks, then state change) before it looks at the next, so that a later operation is checked against the state the earlier ones left (the same exit, slashing or deposit twice in one block)", fname, len(loops))
		default:
			// the loop applies the operation: it calls the singular processing function, or a validating AND a mutating one
			// (helpers and closures of the package called from the loop are read in place)
			calls := map[string]bool{}
			top := newInlEnv(info, fd.Body, nil, nil, nil, nil)
			seq := 0
			walkInlined(c.P, pk, top, 0, map[*ast.BlockStmt]bool{}, &seq, func(st inlSite) {
				if nd := st.nodeIn(top); nd != nil && loops[0].Pos() <= nd.Pos() && nd.End() <= loops[0].End() {
					calls[st.f.Name()] = true
				}
			})
			applies := calls[singular]
			for nm := range calls {
				if strings.HasPrefix(nm, "Initiate") || strings.HasPrefix(nm, "Slash") || strings.HasPrefix(nm, "Set") || strings.HasPrefix(nm, "Increase") || strings.HasPrefix(nm, "Add") || strings.HasPrefix(nm, "Process") {
					applies = true
				}
			}
			if applies {
				c.ok(key, loops[0].Pos(), "one loop, each operation checked and applied in turn")
			} else {
				c.bad(key, loops[0].Pos(), "%s's loop over the operations does not apply them (no call of %s or of a state-changing function in it)", fname, singular)
			}
		}
	})
	c.stat("operation_lists", n)
}

// ---------------------------------------------------------------------------------------------------------------

func ruleNodeCopy(c *Ctx) {
	n := 0
	isTreeNode := func(t types.Type) bool {
		nt := namedOf(t)
		if nt == nil || !isZtyp(nt.Obj()) || nt.Obj().Pkg() == nil || !strings.HasSuffix(nt.Obj().Pkg().Path(), "/tree") {
			return false
		}
		_, isStruct := nt.Underlying().(*types.Struct)
		return isStruct
	}
	c.P.funcDecls(func(pk *packages.Package, fd *ast.FuncDecl) {
		if fd.Body == nil {
			return
		}
		info := pk.TypesInfo
		fname := pkgShort(pk.Types) + "." + funcName(fd)
		ast.Inspect(fd.Body, func(nd ast.Node) bool {
			st, ok := nd.(*ast.StarExpr)
			if !ok {
				return true
			}
			pt, ok := info.TypeOf(st.X).(*types.Pointer)
			if !ok || !isTreeNode(pt.Elem()) {
				return true
			}
			n++
			c.bad(fname+":*"+types.ExprString(st.X), st.Pos(), "%s copies the tree node *%s by value: the copy keeps the memoised hash of the original, so changing a child of the copy yields a node whose root still describes the old contents", fname, types.ExprString(st.X))
			return true
		})
	})
	if n == 0 {
		c.ok("zrnt", token.NoPos, "no ztyp tree node is copied by value anywhere in zrnt")
	}
	// a leaf handed out by a tree (a *RootView / *tree.Root obtained from Get, a type assertion or any call) IS the
	// node every copy of that tree shares: it is never written through (`*leaf = …`, `leaf[i] = …`, copy(leaf[:], …))
	var nodeIface *types.Interface
	if tp := c.P.ByPth["github.com/protolambda/ztyp/tree"]; tp != nil {
		if o := tp.Types.Scope().Lookup("Node"); o != nil {
			nodeIface, _ = o.Type().Underlying().(*types.Interface)
		}
	}
	if nodeIface == nil {
		anchorFail("node.copy: ztyp tree.Node not loaded")
	}
	var leafViewIface *types.Interface
	if vp := c.P.ByPth["github.com/protolambda/ztyp/view"]; vp != nil {
		if o := vp.Types.Scope().Lookup("View"); o != nil {
			leafViewIface, _ = o.Type().Underlying().(*types.Interface)
		}
	}
	w := 0
	c.P.funcDecls(func(pk *packages.Package, fd *ast.FuncDecl) {
		if fd.Body == nil || !strings.Contains(pk.PkgPath, "/eth2/") {
			return
		}
		info := pk.TypesInfo
		fname := pkgShort(pk.Types) + "." + funcName(fd)
		defs := reachingDefs(info, fd.Body)
		// the pointer comes out of a tree: defined by a type assertion or a call (not &local, not new)
		fromTree := func(e ast.Expr) bool {
			id, ok := ast.Unparen(e).(*ast.Ident)
			if !ok {
				return false
			}
			o := info.ObjectOf(id)
			if o == nil {
				return false
			}
			pt, ok := o.Type().(*types.Pointer)
			if !ok || !(types.Implements(pt, nodeIface) || (leafViewIface != nil && types.Implements(pt, leafViewIface))) {
				return false
			}
			if _, isArr := pt.Elem().Underlying().(*types.Array); !isArr {
				return false
			}
			for _, d := range defs.defs[o] {
				if d.def.rhs == nil {
					continue
				}
				switch r := ast.Unparen(d.def.rhs).(type) {
				case *ast.TypeAssertExpr:
					return true
				case *ast.CallExpr:
					if fid, ok := r.Fun.(*ast.Ident); ok && fid.Name == "new" {
						continue
					}
					if !isConversion(info, r) {
						return true
					}
				}
			}
			return false
		}
		ast.Inspect(fd.Body, func(nd ast.Node) bool {
			switch x := nd.(type) {
			case *ast.AssignStmt:
				for _, l := range x.Lhs {
					var base ast.Expr
					switch lx := ast.Unparen(l).(type) {
					case *ast.StarExpr:
						base = lx.X
					case *ast.IndexExpr:
						base = lx.X
					}
					if base != nil && fromTree(base) {
						w++
						c.bad(fname+":write *"+types.ExprString(base), x.Pos(), "%s writes through %s, a leaf handed out by a tree: the node is shared by every copy of that tree (CopyState is persistent), so the other copies change with it and their memoised roots no longer describe them", fname, types.ExprString(base))
					}
				}
			case *ast.CallExpr:
				if id, ok := x.Fun.(*ast.Ident); ok && id.Name == "copy" && len(x.Args) == 2 {
					if sl, ok := ast.Unparen(x.Args[0]).(*ast.SliceExpr); ok && fromTree(sl.X) {
						w++
						c.bad(fname+":write *"+types.ExprString(sl.X), x.Pos(), "%s copies into %s, a leaf handed out by a tree: the node is shared by every copy of that tree", fname, types.ExprString(sl.X))
					}
				}
			}
			return true
		})
	})
	if w == 0 {
		c.ok("zrnt.leaf", token.NoPos, "no leaf handed out by a tree is written through")
	}
}

func init() {
	register(&Rule{Name: "reslice.zero", Floor: 4,
		Doc: "`x[:0]` re-uses the memory of x for what is appended next: it is only written where x is the function's own buffer (a local made or grown there, a local array, or a parameter of an unexported function that every caller hands its own buffer) — or in the few documented in-place filters whose callers hand them a private copy (frozen list). Anywhere else the elements written land in a slice somebody else still reads: the caller's message, a cached committee",
		Run: ruleResliceZero})
}

// resliceZeroAllowed: functions that by contract overwrite the slice they are given (callers checked by epc.source /
// documented on the function), by qualified name.
var resliceZeroAllowed = map[string]string{
	"phase0.AttestationBits.FilterParticipants":     "documented in-place filter: callers pass a copy (epc.source checks them)",
	"phase0.AttestationBits.FilterNonParticipants":  "documented in-place filter",
	"electra.AttestationBits.FilterParticipants":    "documented in-place filter",
	"electra.AttestationBits.FilterNonParticipants": "documented in-place filter",
	"common.BLSPubkey.MarshalText":                  "writes the hex text into the caller-provided output buffer",
	"common.BLSSignature.MarshalText":               "writes the hex text into the caller-provided output buffer",
}

func ruleResliceZero(c *Ctx) {
	c.P.funcDecls(func(pk *packages.Package, fd *ast.FuncDecl) {
		if fd.Body == nil || !strings.Contains(pk.PkgPath, "/eth2/") {
			return
		}
		info := pk.TypesInfo
		fname := pkgShort(pk.Types) + "." + funcName(fd)
		k := 0
		ownBufferCallers = func(callee *ast.FuncDecl, pi int, depth int) (bool, string) {
			self, _ := info.Defs[callee.Name].(*types.Func)
			if self == nil || self.Exported() {
				return false, ""
			}
			n, all := 0, true
			for _, file := range pk.Syntax {
				for _, d := range file.Decls {
					fd2, ok := d.(*ast.FuncDecl)
					if !ok || fd2.Body == nil {
						continue
					}
					ast.Inspect(fd2.Body, func(m ast.Node) bool {
						call, ok := m.(*ast.CallExpr)
						if !ok {
							return true
						}
						if g := calleeFunc(info, call); g == self && pi < len(call.Args) {
							n++
							if ok2, _ := ownBuffer(info, fd2, call.Args[pi], depth+1); !ok2 {
								all = false
							}
						}
						return true
					})
				}
			}
			if n > 0 && all {
				return true, "handed in by every caller as its own buffer"
			}
			return false, ""
		}
		ast.Inspect(fd.Body, func(nd ast.Node) bool {
			se, ok := nd.(*ast.SliceExpr)
			if !ok || se.Low != nil || se.High == nil || se.Slice3 {
				return true
			}
			if tv, ok := info.Types[se.High]; !ok || tv.Value == nil || tv.Value.ExactString() != "0" {
				return true
			}
			if _, isSlice := info.TypeOf(se.X).Underlying().(*types.Slice); !isSlice {
				return true
			}
			k++
			key := fname + ":" + types.ExprString(se)
			if k > 1 {
				key += "#" + itoa(int64(k))
			}
			// whose memory is it?
			own, why := ownBuffer(info, fd, se.X, 0)
			switch {
			case own:
				c.ok(key, se.Pos(), "re-uses the function's own buffer (%s)", why)
			case resliceZeroAllowed[fname] != "":
				c.ok(key, se.Pos(), "%s", resliceZeroAllowed[fname])
			case onlyCalledByAllowed(c.P, pk, fd):
				c.ok(key, se.Pos(), "unexported helper of the documented in-place filters (all its callers are on the list)")
			default:
				c.bad(key, se.Pos(), "%s re-uses the memory of `%s` (%s) for what it appends next: those elements are written over a slice that is not this function's own — whoever else holds it (the message being validated, a cached committee, the caller) sees its contents change", fname, types.ExprString(se.X), why)
			}
			return true
		})
	})
}

// ownBufferCallers (set by the rule for the package being read): every call of fd in its package passes, at parameter
// position pi, a buffer that is the calling function's own.
var ownBufferCallers func(fd *ast.FuncDecl, pi int, depth int) (bool, string)

// ownBuffer: e names a slice this function made itself (make / literal / nil / append of such / its own reslice),
// looking through every assignment of the local.
func ownBuffer(info *types.Info, fd *ast.FuncDecl, e ast.Expr, depth int) (bool, string) {
	e = ast.Unparen(e)
	if depth > 4 {
		return false, "definition chain too deep"
	}
	switch x := e.(type) {
	case *ast.CompositeLit:
		return true, "a literal"
	case *ast.CallExpr:
		if id, ok := x.Fun.(*ast.Ident); ok {
			switch id.Name {
			case "make":
				return true, "made here"
			case "append":
				if len(x.Args) > 0 {
					return ownBuffer(info, fd, x.Args[0], depth+1)
				}
			}
		}
		if isConversion(info, x) && len(x.Args) == 1 {
			return ownBuffer(info, fd, x.Args[0], depth+1)
		}
		// the in-place filters hand back (a prefix of) what they were given
		if f := calleeFunc(info, x); f != nil && len(x.Args) == 1 {
			if _, ok := resliceZeroAllowed[qualName(f)]; ok {
				return ownBuffer(info, fd, x.Args[0], depth+1)
			}
		}
		return false, "the result of " + types.ExprString(x.Fun)
	case *ast.SliceExpr:
		return ownBuffer(info, fd, x.X, depth+1)
	case *ast.Ident:
		if x.Name == "nil" {
			return true, "nil"
		}
		o := info.ObjectOf(x)
		if o == nil {
			return false, "unknown"
		}
		if pi := paramIndex(fd, info, o); pi >= 0 {
			// an unexported function: the buffer is the callers' own when every call in the package hands in one
			if ownBufferCallers != nil && depth <= 2 {
				if ok, why := ownBufferCallers(fd, pi, depth); ok {
					return true, why
				}
			}
			return false, "a parameter"
		}
		if _, isArr := o.Type().Underlying().(*types.Array); isArr && paramIndex(fd, info, o) < 0 {
			if v, ok := o.(*types.Var); ok && !v.IsField() && !(v.Pkg() != nil && v.Parent() == v.Pkg().Scope()) {
				return true, "a local array"
			}
		}
		if v, ok := o.(*types.Var); ok && (v.IsField() || (v.Pkg() != nil && v.Parent() == v.Pkg().Scope())) {
			return false, "a field or package variable"
		}
		// every assignment of the local must be own
		all, any := true, false
		why := ""
		ast.Inspect(fd.Body, func(n ast.Node) bool {
			switch s := n.(type) {
			case *ast.AssignStmt:
				for i, l := range s.Lhs {
					id, ok := ast.Unparen(l).(*ast.Ident)
					if !ok || info.ObjectOf(id) != o {
						continue
					}
					any = true
					var rhs ast.Expr
					if len(s.Rhs) == len(s.Lhs) {
						rhs = s.Rhs[i]
					} else if len(s.Rhs) == 1 {
						rhs = s.Rhs[0]
					}
					// x = x[:0] / x = append(x, …) / x = inPlaceFilter(x) refer to itself: fine
					if rhs != nil && mentionsOnlySelf(info, rhs, o) {
						continue
					}
					if cl, ok := ast.Unparen(rhs).(*ast.CallExpr); ok && len(cl.Args) == 1 {
						if f := calleeFunc(info, cl); f != nil {
							if _, allowed := resliceZeroAllowed[qualName(f)]; allowed {
								if a, ok := ast.Unparen(cl.Args[0]).(*ast.Ident); ok && info.ObjectOf(a) == o {
									continue
								}
							}
						}
					}
					if ok2, w := ownBuffer(info, fd, rhs, depth+1); !ok2 {
						all = false
						why = "defined from " + w
					}
				}
			case *ast.ValueSpec:
				for i, nm := range s.Names {
					if info.Defs[nm] != o {
						continue
					}
					any = true
					if i < len(s.Values) {
						if ok2, w := ownBuffer(info, fd, s.Values[i], depth+1); !ok2 {
							all = false
							why = "defined from " + w
						}
					}
				}
			case *ast.RangeStmt:
				for _, kv := range []ast.Expr{s.Key, s.Value} {
					if id, ok := kv.(*ast.Ident); ok && info.ObjectOf(id) == o {
						any, all, why = true, false, "an element of "+types.ExprString(s.X)
					}
				}
			}
			return true
		})
		if any && all {
			return true, "a local made and grown here"
		}
		if why == "" {
			why = "not defined in this function"
		}
		return false, why
	case *ast.SelectorExpr:
		return false, "the field " + types.ExprString(x)
	case *ast.IndexExpr:
		return false, "an element of " + types.ExprString(x.X)
	}
	return false, types.ExprString(e)
}

// mentionsOnlySelf: rhs is x[:k] or append(x, …) over the same local.
func mentionsOnlySelf(info *types.Info, rhs ast.Expr, o types.Object) bool {
	rhs = ast.Unparen(rhs)
	switch x := rhs.(type) {
	case *ast.SliceExpr:
		id, ok := ast.Unparen(x.X).(*ast.Ident)
		return ok && info.ObjectOf(id) == o
	case *ast.CallExpr:
		if id, ok := x.Fun.(*ast.Ident); ok && id.Name == "append" && len(x.Args) > 0 {
			a0 := ast.Unparen(x.Args[0])
			if sl, isSl := a0.(*ast.SliceExpr); isSl {
				a0 = ast.Unparen(sl.X) // append(x[:0], …)
			}
			a, ok := a0.(*ast.Ident)
			return ok && info.ObjectOf(a) == o
		}
	}
	return false
}

// onlyCalledByAllowed: an unexported function all of whose callers (in its package) are on the in-place list.
func onlyCalledByAllowed(p *Prog, pk *packages.Package, fd *ast.FuncDecl) bool {
	self, ok := pk.TypesInfo.Defs[fd.Name].(*types.Func)
	if !ok || self.Exported() {
		return false
	}
	callers, all := 0, true
	p.funcDecls(func(p2 *packages.Package, f2 *ast.FuncDecl) {
		if p2 != pk || f2.Body == nil || f2 == fd {
			return
		}
		ast.Inspect(f2.Body, func(n ast.Node) bool {
			if call, ok := n.(*ast.CallExpr); ok {
				if f := calleeFunc(pk.TypesInfo, call); f == self {
					callers++
					if resliceZeroAllowed[pkgShort(pk.Types)+"."+funcName(f2)] == "" {
						all = false
					}
				}
			}
			return true
		})
	})
	return callers > 0 && all
}

func init() {
	register(&Rule{Name: "global.view", Floor: 0,
		Doc: "no package-level variable of zrnt holds a mutable tree view (a value built by <Type>.New() / Default / a View constructor): a view is a handle on a backing tree that setters replace in place, so handing the same one to every caller makes the data of one caller (deposit roots appended during one genesis) show up in the next",
		Run: ruleGlobalView})
	register(&Rule{Name: "publish.init", Floor: 1,
		Doc: "a value published through an atomic pointer (Store / CompareAndSwap) is complete when it is published: after the publishing call the function no longer writes through it (no method call on it, no field store, not handed to a function that fills it). Publishing first and filling afterwards lets a concurrent reader load the empty value",
		Run: rulePublishInit})
}

func ruleGlobalView(c *Ctx) {
	n := 0
	viewIface := func() *types.Interface {
		if pk := c.P.ByPth["github.com/protolambda/ztyp/view"]; pk != nil {
			if o := pk.Types.Scope().Lookup("View"); o != nil {
				if it, ok := o.Type().Underlying().(*types.Interface); ok {
					return it
				}
			}
		}
		return nil
	}()
	if viewIface == nil {
		anchorFail("global.view: ztyp view.View not loaded")
	}
	for _, pk := range c.P.Pkgs {
		info := pk.TypesInfo
		for _, file := range pk.Syntax {
			for _, decl := range file.Decls {
				gd, ok := decl.(*ast.GenDecl)
				if !ok || gd.Tok != token.VAR {
					continue
				}
				for _, sp := range gd.Specs {
					vs := sp.(*ast.ValueSpec)
					for i, nm := range vs.Names {
						o := info.Defs[nm]
						if o == nil || i >= len(vs.Values) {
							continue
						}
						t := o.Type()
						if !types.Implements(t, viewIface) {
							continue
						}
						// immutable basic views (Uint64View(0), RootView) are values, not handles
						if _, isPtr := t.(*types.Pointer); !isPtr {
							if _, isIface := t.Underlying().(*types.Interface); !isIface {
								continue
							}
						}
						cl, isCall := ast.Unparen(vs.Values[i]).(*ast.CallExpr)
						if !isCall || isConversion(info, cl) || nm.Name == "_" {
							continue // `var _ Iface = (*T)(nil)` and the like
						}
						n++
						c.bad(pkgShort(pk.Types)+".var "+nm.Name, nm.Pos(), "package-level variable %s holds a tree view built once (%s): every user gets the same mutable handle, so what one of them appends or sets is seen by all the others", nm.Name, types.ExprString(vs.Values[i]))
					}
				}
			}
		}
	}
	if n == 0 {
		c.ok("zrnt", token.NoPos, "no package-level variable holds a mutable tree view")
	}
	// a value that depends on the configuration is not remembered in a package-level variable: the first configuration
	// to come by would decide it for every later one (a default subtree whose depth follows from a preset limit, built
	// once and handed to the states of another preset)
	m := 0
	c.P.funcDecls(func(pk *packages.Package, fd *ast.FuncDecl) {
		if fd.Body == nil || !strings.Contains(pk.PkgPath, "/eth2/") {
			return
		}
		info := pk.TypesInfo
		specDep := func(e ast.Expr) bool {
			dep := false
			ast.Inspect(e, func(k ast.Node) bool {
				if id, ok := k.(*ast.Ident); ok {
					if v, ok := info.ObjectOf(id).(*types.Var); ok && isSpecType(v.Type()) && v.Parent() != pk.Types.Scope() {
						dep = true
					}
				}
				return !dep
			})
			return dep
		}
		ast.Inspect(fd.Body, func(k ast.Node) bool {
			as, ok := k.(*ast.AssignStmt)
			if !ok || as.Tok != token.ASSIGN {
				return true
			}
			for i, l := range as.Lhs {
				id, ok := ast.Unparen(l).(*ast.Ident)
				if !ok {
					continue
				}
				v, ok := info.ObjectOf(id).(*types.Var)
				if !ok || v.Parent() != pk.Types.Scope() {
					continue
				}
				var rhs ast.Expr
				if len(as.Rhs) == len(as.Lhs) {
					rhs = as.Rhs[i]
				} else if len(as.Rhs) == 1 {
					rhs = as.Rhs[0]
				}
				if rhs != nil && specDep(rhs) {
					m++
					c.bad(pkgShort(pk.Types)+".var "+id.Name+"<-spec", as.Pos(), "package-level variable %s is set in %s from a value that depends on the configuration (%s): whichever configuration comes first decides it for all later ones", id.Name, funcName(fd), truncate(types.ExprString(rhs), 80))
				}
			}
			return true
		})
	})
	if m == 0 {
		c.ok("zrnt.spec", token.NoPos, "no package-level variable is set from a configuration-dependent value")
	}
}

func rulePublishInit(c *Ctx) {
	n := 0
	c.P.funcDecls(func(pk *packages.Package, fd *ast.FuncDecl) {
		if fd.Body == nil {
			return
		}
		info := pk.TypesInfo
		fname := pkgShort(pk.Types) + "." + funcName(fd)
		ast.Inspect(fd.Body, func(nd ast.Node) bool {
			call, ok := nd.(*ast.CallExpr)
			if !ok {
				return true
			}
			f := calleeFunc(info, call)
			if f == nil || f.Pkg() == nil || f.Pkg().Path() != "sync/atomic" {
				return true
			}
			var pubArg ast.Expr
			switch f.Name() {
			case "Store":
				if len(call.Args) == 1 {
					pubArg = call.Args[0]
				}
			case "CompareAndSwap":
				if len(call.Args) == 2 {
					pubArg = call.Args[1]
				}
			case "StorePointer":
				if len(call.Args) == 2 {
					pubArg = call.Args[1]
				}
			}
			if pubArg == nil {
				return true
			}
			id, ok := ast.Unparen(pubArg).(*ast.Ident)
			if !ok || id.Name == "nil" {
				return true
			}
			obj := info.ObjectOf(id)
			if obj == nil {
				return true
			}
			if _, isPtr := obj.Type().Underlying().(*types.Pointer); !isPtr {
				return true
			}
			n++
			key := fname + ":" + f.Name() + "(" + id.Name + ")"
			// any write through the value after the publishing call
			var late ast.Node
			ast.Inspect(fd.Body, func(k ast.Node) bool {
				if k == nil || k.Pos() <= call.End() || late != nil {
					return true
				}
				switch x := k.(type) {
				case *ast.CallExpr:
					// a method of the value with a pointer receiver (Deserialize, Set…), or the value handed to a function
					if sel, ok := x.Fun.(*ast.SelectorExpr); ok {
						if rid, ok := ast.Unparen(sel.X).(*ast.Ident); ok && info.ObjectOf(rid) == obj {
							if mf := calleeFunc(info, x); mf != nil {
								if sig, ok := mf.Type().(*types.Signature); ok && sig.Recv() != nil {
									if _, ptr := sig.Recv().Type().(*types.Pointer); ptr {
										late = x
									}
								}
							}
						}
					}
				case *ast.AssignStmt:
					for _, l := range x.Lhs {
						switch lx := ast.Unparen(l).(type) {
						case *ast.SelectorExpr:
							if rid, ok := ast.Unparen(lx.X).(*ast.Ident); ok && info.ObjectOf(rid) == obj {
								late = x
							}
						case *ast.StarExpr:
							if rid, ok := ast.Unparen(lx.X).(*ast.Ident); ok && info.ObjectOf(rid) == obj {
								late = x
							}
						}
					}
				}
				return true
			})
			if late != nil {
				c.bad(key, late.Pos(), "%s publishes %s with %s and writes through it afterwards (`%s`): a goroutine that loads the pointer in between uses a value that is not filled yet", fname, id.Name, f.Name(), truncate(types.ExprString(nodeExpr(late)), 60))
			} else {
				c.ok(key, call.Pos(), "%s is complete when it is published", id.Name)
			}
			return true
		})
	})
	c.stat("atomic_publications", n)
}

func nodeExpr(n ast.Node) ast.Expr {
	switch x := n.(type) {
	case ast.Expr:
		return x
	case *ast.AssignStmt:
		if len(x.Lhs) > 0 {
			return x.Lhs[0]
		}
	}
	return &ast.Ident{Name: "…"}
}

func init() {
	register(&Rule{Name: "pool.buffers", Floor: 4,
		Doc: "the sync-committee pool keeps three generations of every buffer (prev…, current…, next…) around its current slot: a branch taken when the item's slot is currentSlot-1 / currentSlot / currentSlot+1 touches the prev… / current… / next… buffers and no other generation (the offset is read off the normalised test, the generation off the field's name)",
		Run: rulePoolBuffers})
	register(&Rule{Name: "pool.covers", Floor: 1,
		Doc: "when the attestation pool asks whether one participation bitfield covers another, the receiver is the STORED aggregate and the argument the incoming attestation (existing.Covers(incoming): nothing new to learn); the other way round a strict superset of what is stored is filed as redundant and its new voters are lost",
		Run: rulePoolCovers})
}

func rulePoolBuffers(c *Ctx) {
	pk := c.P.Pkg("eth2/pool")
	if pk == nil {
		anchorFail("pool.buffers: package eth2/pool not loaded")
	}
	n := 0
	c.P.funcDecls(func(p *packages.Package, fd *ast.FuncDecl) {
		if p != pk || fd.Body == nil || recvTypeName(fd) != "SyncCommitteePool" {
			return
		}
		fname := "pool." + funcName(fd)
		// the rotation itself (a function that moves currentSlot, or replaces a generation's buffer as a whole) shifts
		// every generation in each branch: rotate.order's business. Filing and packing only read those fields.
		rotates := false
		ast.Inspect(fd.Body, func(nd ast.Node) bool {
			if as, ok := nd.(*ast.AssignStmt); ok {
				for _, l := range as.Lhs {
					if sel, ok := ast.Unparen(l).(*ast.SelectorExpr); ok {
						if s := pk.TypesInfo.Selections[sel]; s != nil && s.Kind() == types.FieldVal && recvNamed(s.Recv()) == "SyncCommitteePool" {
							rotates = true
						}
					}
				}
			}
			return true
		})
		if rotates {
			return
		}
		for _, s := range cmpsIn(pk, fd, fname, nil, nil, nil, nil) {
			if s.op != token.EQL || s.tn == nil {
				continue
			}
			// recv.currentSlot - <slot> + k == 0
			var cur, other string
			for a := range s.p {
				switch {
				case a == "":
				case a == "recv.currentSlot":
					cur = a
				default:
					if other != "" {
						other = "-"
					} else {
						other = a
					}
				}
			}
			if cur == "" || other == "" || other == "-" || s.p[cur]*s.p[other] != -1 {
				continue
			}
			d := -s.p[""] * s.p[cur] // currentSlot - slot
			want := map[int64]string{1: "prev", 0: "current", -1: "next"}[d]
			if want == "" || s.negc {
				continue
			}
			n++
			key := fname + ":" + s.text
			var wrong []string
			for nm := range s.tn {
				if nm == "currentSlot" {
					continue
				}
				for _, g := range []string{"prev", "current", "next"} {
					if strings.HasPrefix(nm, g) && g != want {
						wrong = append(wrong, nm)
					}
				}
			}
			if len(wrong) > 0 {
				sortStrings(wrong)
				c.bad(key, s.pos, "%s: the branch taken when `%s` (the item is for the %s slot) touches %v: an item of one slot is filed with, or read from, another slot's generation", fname, s.text, want, wrong)
			} else {
				c.ok(key, s.pos, "%s-slot branch touches %s… buffers only", want, want)
			}
		}
	})
	c.stat("generation_branches", n)
}

func recvNamed(t types.Type) string {
	if p, ok := t.(*types.Pointer); ok {
		t = p.Elem()
	}
	if nt, ok := t.(*types.Named); ok {
		return nt.Obj().Name()
	}
	return ""
}

func sortStrings(a []string) {
	for i := range a {
		for j := i + 1; j < len(a); j++ {
			if a[j] < a[i] {
				a[i], a[j] = a[j], a[i]
			}
		}
	}
}

func rulePoolCovers(c *Ctx) {
	pk := c.P.Pkg("eth2/pool")
	if pk == nil {
		anchorFail("pool.covers: package eth2/pool not loaded")
	}
	info := pk.TypesInfo
	n := 0
	c.P.funcDecls(func(p *packages.Package, fd *ast.FuncDecl) {
		if p != pk || fd.Body == nil {
			return
		}
		fname := "pool." + funcName(fd)
		ast.Inspect(fd.Body, func(nd ast.Node) bool {
			call, ok := nd.(*ast.CallExpr)
			if !ok || len(call.Args) != 1 {
				return true
			}
			sel, ok := call.Fun.(*ast.SelectorExpr)
			if !ok || sel.Sel.Name != "Covers" {
				return true
			}
			n++
			key := fname + ":Covers"
			// which side derives from a parameter of the function (the incoming item)?
			fromParam := func(e ast.Expr) bool {
				root := ast.Unparen(e)
				for {
					switch x := root.(type) {
					case *ast.SelectorExpr:
						root = ast.Unparen(x.X)
						continue
					case *ast.StarExpr:
						root = ast.Unparen(x.X)
						continue
					}
					break
				}
				id, ok := root.(*ast.Ident)
				return ok && paramIndex(fd, info, info.Uses[id]) >= 0
			}
			rp, ap := fromParam(sel.X), fromParam(call.Args[0])
			switch {
			case rp && !ap:
				c.bad(key, call.Pos(), "%s asks whether the INCOMING bits %s cover the stored %s: a strict superset of what the pool holds is then taken for redundant (and a subset for new); the question is existing.Covers(incoming)", fname, types.ExprString(sel.X), types.ExprString(call.Args[0]))
			case !rp && ap:
				c.ok(key, call.Pos(), "stored.Covers(incoming)")
			default:
				c.unm(key, call.Pos(), "cannot tell which operand is the incoming attestation")
			}
			return true
		})
	})
	c.stat("covers_calls", n)
}
