package main

import (
	"go/ast"
	"go/token"
	"go/types"
	"sort"
	"strings"

	"golang.org/x/tools/go/cfg"
	"golang.org/x/tools/go/packages"
)

func init() {
	register(&Rule{Name: "global.state", Floor: 0,
		Doc: "no function of zrnt other than init writes a package-level variable (assignment to it, to a field or element of it, delete from it, Store/Swap/CompareAndSwap/LoadOrStore/Add/Delete of a sync or sync/atomic value held in it): what the consensus functions return is a function of their arguments and not of the calls made before. Pools of scratch buffers (sync.Pool) and one-time initialisers (sync.Once) are left out; the reviewed instances are listed in globalStateReviewed",
		Run: ruleGlobalState})
	register(&Rule{Name: "decode.recv", Floor: 100,
		Doc: "a method that decodes into its receiver (Deserialize, UnmarshalText, UnmarshalJSON, UnmarshalYAML, UnmarshalSSZ, Decode…) has a pointer receiver unless the receiver type is itself a reference (pointer, map, channel, interface): on a value receiver of an array, struct, slice or basic type the decoded contents go into a copy and the caller's value stays what it was",
		Run: ruleDecodeRecv})
	register(&Rule{Name: "ssz.writer", Floor: 25,
		Doc: "for every SSZ type that is not a plain struct, the structural codec calls of Serialize (EncodingWriter.List / Vector / BitList / BitVector / Container / FixedLenContainer / Union) are the ones Deserialize makes on the DecodingReader: a bitvector written as a bitlist carries a delimiter bit its own decoder does not expect",
		Run: ruleSSZWriter})
	register(&Rule{Name: "tree.fill", Floor: 0,
		Doc: "the backing tree of a fixed-length vector is filled to its LENGTH (tree.SubtreeFillToLength / SubtreeFillToContents: the chunks past the length stay zero, as merkleization pads them); tree.SubtreeFillToDepth fills every leaf of the cover, which is the same tree only when the length is a power of two: it is not called with a depth that was computed from a configured length (tree.CoverDepth(n))",
		Run: ruleTreeFill})
}

// globalStateReviewed: package-level variables written outside init on the reviewed tree, with the reason each is fine.
var globalStateReviewed = map[string]string{}

// rootVar: the package-level variable an lvalue / receiver expression is rooted in (x, x.f, x[i], *x, x.f[i].g).
func rootPkgVar(info *types.Info, pkg *types.Package, e ast.Expr) *types.Var {
	for {
		switch x := ast.Unparen(e).(type) {
		case *ast.Ident:
			if v, ok := info.ObjectOf(x).(*types.Var); ok && v.Pkg() != nil && v.Parent() == v.Pkg().Scope() && !v.IsField() {
				return v
			}
			return nil
		case *ast.SelectorExpr:
			// pkg.Var of another package
			if id, ok := x.X.(*ast.Ident); ok {
				if _, isPkg := info.ObjectOf(id).(*types.PkgName); isPkg {
					if v, ok := info.ObjectOf(x.Sel).(*types.Var); ok && v.Pkg() != nil && v.Parent() == v.Pkg().Scope() {
						return v
					}
					return nil
				}
			}
			e = x.X
		case *ast.IndexExpr:
			e = x.X
		case *ast.StarExpr:
			e = x.X
		case *ast.SliceExpr:
			e = x.X
		default:
			return nil
		}
	}
}

func ruleGlobalState(c *Ctx) {
	n := 0
	seen := map[string]bool{}
	syncWriter := map[string]bool{"Store": true, "Swap": true, "CompareAndSwap": true, "LoadOrStore": true, "LoadAndDelete": true, "Add": true, "Delete": true, "And": true, "Or": true, "CompareAndDelete": true, "Range": false}
	c.P.funcDecls(func(pk *packages.Package, fd *ast.FuncDecl) {
		if fd.Body == nil || !strings.Contains(pk.PkgPath, "/eth2") {
			return
		}
		if fd.Recv == nil && fd.Name.Name == "init" {
			return
		}
		info := pk.TypesInfo
		fname := pkgShort(pk.Types) + "." + funcName(fd)
		report := func(v *types.Var, pos token.Pos, how string) {
			if v.Pkg() == nil || !strings.Contains(v.Pkg().Path(), "protolambda/zrnt") {
				return
			}
			key := pkgShort(v.Pkg()) + ".var " + v.Name() + "<-" + fname
			if seen[key] {
				return
			}
			seen[key] = true
			n++
			if why, ok := globalStateReviewed[pkgShort(v.Pkg())+"."+v.Name()]; ok {
				c.ok(key, pos, "reviewed: %s", why)
				return
			}
			c.bad(key, pos, "%s %s the package-level variable %s: what it (or a later call of anything reading %s) returns now depends on the calls made before, by any state or configuration in the process", fname, how, v.Name(), v.Name())
		}
		ast.Inspect(fd.Body, func(k ast.Node) bool {
			switch x := k.(type) {
			case *ast.AssignStmt:
				if x.Tok == token.DEFINE {
					return true
				}
				for _, l := range x.Lhs {
					if v := rootPkgVar(info, pk.Types, l); v != nil {
						report(v, x.Pos(), "assigns to")
					}
				}
			case *ast.IncDecStmt:
				if v := rootPkgVar(info, pk.Types, x.X); v != nil {
					report(v, x.Pos(), "changes")
				}
			case *ast.CallExpr:
				if id, ok := ast.Unparen(x.Fun).(*ast.Ident); ok && len(x.Args) >= 1 {
					if b, isB := info.ObjectOf(id).(*types.Builtin); isB && (b.Name() == "delete" || b.Name() == "clear" || (b.Name() == "copy" && len(x.Args) == 2)) {
						if v := rootPkgVar(info, pk.Types, x.Args[0]); v != nil {
							report(v, x.Pos(), "writes into ("+b.Name()+")")
						}
					}
					return true
				}
				sel, ok := ast.Unparen(x.Fun).(*ast.SelectorExpr)
				if !ok {
					return true
				}
				f := calleeFunc(info, x)
				if f == nil || f.Pkg() == nil || (f.Pkg().Path() != "sync" && f.Pkg().Path() != "sync/atomic") {
					return true
				}
				sig, _ := f.Type().(*types.Signature)
				if sig == nil || sig.Recv() == nil {
					// atomic.StoreUint64(&v, …) and the like
					if (strings.HasPrefix(f.Name(), "Store") || strings.HasPrefix(f.Name(), "Swap") || strings.HasPrefix(f.Name(), "Add") || strings.HasPrefix(f.Name(), "CompareAndSwap")) && len(x.Args) >= 1 {
						if u, ok := ast.Unparen(x.Args[0]).(*ast.UnaryExpr); ok && u.Op == token.AND {
							if v := rootPkgVar(info, pk.Types, u.X); v != nil {
								report(v, x.Pos(), "stores into (atomic."+f.Name()+")")
							}
						}
					}
					return true
				}
				if rn := namedOf(sig.Recv().Type()); rn != nil && (rn.Obj().Name() == "Pool" || rn.Obj().Name() == "Once") {
					return true
				}
				if !syncWriter[f.Name()] {
					return true
				}
				if v := rootPkgVar(info, pk.Types, sel.X); v != nil {
					report(v, x.Pos(), "stores into ("+f.Name()+")")
				}
			}
			return true
		})
	})
	if n == 0 {
		c.ok("zrnt", token.NoPos, "no function other than init writes a package-level variable")
	}
	c.stat("global_writes", n)
}

// ---------------------------------------------------------------------------------------------------------------

var decodeMethodNames = map[string]bool{"Deserialize": true, "UnmarshalText": true, "UnmarshalJSON": true, "UnmarshalYAML": true, "UnmarshalSSZ": true, "UnmarshalBinary": true, "Decode": true, "DecodeSSZ": true}

func ruleDecodeRecv(c *Ctx) {
	n := 0
	c.P.funcDecls(func(pk *packages.Package, fd *ast.FuncDecl) {
		if fd.Recv == nil || len(fd.Recv.List) != 1 || !decodeMethodNames[fd.Name.Name] || !strings.Contains(pk.PkgPath, "/eth2") {
			return
		}
		f, _ := pk.TypesInfo.Defs[fd.Name].(*types.Func)
		if f == nil {
			return
		}
		sig := f.Type().(*types.Signature)
		// a decoder takes something to decode from
		if sig.Params().Len() == 0 {
			return
		}
		rt := sig.Recv().Type()
		n++
		key := pkgShort(pk.Types) + "." + funcName(fd)
		if _, isPtr := rt.(*types.Pointer); isPtr {
			c.ok(key, fd.Pos(), "pointer receiver")
			return
		}
		switch rt.Underlying().(type) {
		case *types.Pointer, *types.Map, *types.Chan, *types.Interface, *types.Signature:
			c.ok(key, fd.Pos(), "the receiver type is a reference")
			return
		}
		// a value receiver that is never written in the body decodes nothing into itself (a stateless decoder)
		writes := false
		var recvObj types.Object
		if len(fd.Recv.List[0].Names) == 1 {
			recvObj = pk.TypesInfo.Defs[fd.Recv.List[0].Names[0]]
		}
		if recvObj != nil && fd.Body != nil {
			ast.Inspect(fd.Body, func(k ast.Node) bool {
				if id, ok := k.(*ast.Ident); ok && pk.TypesInfo.Uses[id] == recvObj {
					writes = true
				}
				return !writes
			})
		}
		if !writes {
			c.ok(key, fd.Pos(), "value receiver that the body never mentions")
			return
		}
		c.bad(key, fd.Pos(), "%s decodes into a value receiver of type %s: the decoded contents land in the method's copy, the caller's value is unchanged and no error is reported", key, types.TypeString(rt, types.RelativeTo(pk.Types)))
	})
	c.stat("decoders", n)
}

// ---------------------------------------------------------------------------------------------------------------

func ruleSSZWriter(c *Ctx) {
	se := newShapeEval(c.P)
	structural := map[string]bool{"List": true, "Vector": true, "BitList": true, "BitVector": true, "Container": true, "FixedLenContainer": true, "Union": true}
	calls := func(mi *methInfo, recvName string) ([]string, bool) {
		set := map[string]bool{}
		delegates := false
		ast.Inspect(mi.fd.Body, func(k ast.Node) bool {
			call, ok := k.(*ast.CallExpr)
			if !ok {
				return true
			}
			f := calleeFunc(mi.pk.TypesInfo, call)
			if f == nil {
				return true
			}
			sig, _ := f.Type().(*types.Signature)
			if sig == nil || sig.Recv() == nil {
				return true
			}
			rn := namedOf(sig.Recv().Type())
			if rn != nil && isZtyp(rn.Obj()) && rn.Obj().Name() == recvName {
				if structural[f.Name()] {
					set[f.Name()] = true
				}
				return true
			}
			if f.Name() == mi.fd.Name.Name {
				delegates = true // the work is done by another type's method of the same name
			}
			return true
		})
		var out []string
		for k := range set {
			out = append(out, k)
		}
		sort.Strings(out)
		return out, delegates
	}
	n := 0
	for _, t := range sszTypes(c.P, se) {
		if _, ok := t.nt.Underlying().(*types.Struct); ok {
			continue
		}
		d, s := se.method(t.nt, "Deserialize"), se.method(t.nt, "Serialize")
		if d == nil || s == nil || d.fd.Body == nil || s.fd.Body == nil {
			continue
		}
		dc, dDel := calls(d, "DecodingReader")
		sc, sDel := calls(s, "EncodingWriter")
		if len(dc) == 0 && len(sc) == 0 {
			continue // bytes and basic values: nothing structural on either side
		}
		n++
		switch {
		case strings.Join(dc, ",") == strings.Join(sc, ","):
			c.ok(t.name, t.nt.Obj().Pos(), "%s on both sides", strings.Join(dc, ","))
		case (len(dc) == 0 && dDel) || (len(sc) == 0 && sDel):
			c.unm(t.name, t.nt.Obj().Pos(), "one of Serialize / Deserialize hands its work to another type's method: reads {%s}, writes {%s}", strings.Join(dc, ","), strings.Join(sc, ","))
		default:
			c.bad(t.name, s.fd.Pos(), "%s: Deserialize reads with DecodingReader.{%s} but Serialize writes with EncodingWriter.{%s}: what the type writes is not what it reads back", t.name, strings.Join(dc, ","), strings.Join(sc, ","))
		}
	}
	c.stat("codec_pairs", n)
}

// ---------------------------------------------------------------------------------------------------------------

func ruleTreeFill(c *Ctx) {
	n, good := 0, 0
	c.P.funcDecls(func(pk *packages.Package, fd *ast.FuncDecl) {
		if fd.Body == nil || !strings.Contains(pk.PkgPath, "/eth2") {
			return
		}
		info := pk.TypesInfo
		fname := pkgShort(pk.Types) + "." + funcName(fd)
		defs := singleDefs(info, fd.Body)
		isZtypTree := func(f *types.Func) bool {
			return f != nil && isZtyp(f) && f.Pkg() != nil && strings.HasSuffix(f.Pkg().Path(), "/tree")
		}
		// the depth is the cover of a length: CoverDepth(n) directly or through single-definition locals
		var fromCover func(e ast.Expr, depth int) (bool, string)
		fromCover = func(e ast.Expr, depth int) (bool, string) {
			if depth > 6 {
				return false, ""
			}
			switch x := ast.Unparen(e).(type) {
			case *ast.CallExpr:
				if isConversion(info, x) && len(x.Args) == 1 {
					return fromCover(x.Args[0], depth+1)
				}
				if f := calleeFunc(info, x); isZtypTree(f) && (f.Name() == "CoverDepth") && len(x.Args) == 1 {
					return true, types.ExprString(x.Args[0])
				}
			case *ast.Ident:
				if d, ok := defs[info.ObjectOf(x)]; ok && d.n == 1 && d.rhs != nil {
					return fromCover(d.rhs, depth+1)
				}
			}
			return false, ""
		}
		ast.Inspect(fd.Body, func(k ast.Node) bool {
			call, ok := k.(*ast.CallExpr)
			if !ok {
				return true
			}
			f := calleeFunc(info, call)
			if !isZtypTree(f) {
				return true
			}
			switch f.Name() {
			case "SubtreeFillToLength", "SubtreeFillToContents":
				good++
				c.ok(fname+":"+f.Name(), call.Pos(), "filled to the length")
			case "SubtreeFillToDepth":
				if len(call.Args) != 2 {
					return true
				}
				if is, of := fromCover(call.Args[1], 0); is {
					// a constant power of two is the one case where both fills agree
					if tv, ok := info.Types[ast.Unparen(call.Args[1])]; ok && tv.Value != nil {
						return true
					}
					n++
					c.bad(fname+":SubtreeFillToDepth", call.Pos(), "%s fills all 2^CoverDepth(%s) leaves with the filler: for a length that is not a power of two the chunks past the length must stay zero (SubtreeFillToLength), or the root is not the hash-tree-root of the vector's contents", fname, of)
				}
			}
			return true
		})
	})
	if n == 0 {
		c.ok("zrnt", token.NoPos, "no subtree is filled to the full cover depth of a configured length (%d fills to the length)", good)
	}
	c.stat("fills", good+n)
}

// ---------------------------------------------------------------------------------------------------------------

func init() {
	register(&Rule{Name: "htr.computed", Floor: 100,
		Doc: "every return of a HashTreeRoot(hFn) method hands out something computed for the value: a call that is given the hash function (hFn.…(…), f(hFn, …), x.HashTreeRoot(hFn)), or — for values of at most 32 bytes, which are their own root — the receiver's bytes (a conversion of the receiver, or a local that was filled from it). A constant (Root{}) is the root of no multi-chunk value",
		Run: ruleHtrComputed})
}

func ruleHtrComputed(c *Ctx) {
	n := 0
	c.P.funcDecls(func(pk *packages.Package, fd *ast.FuncDecl) {
		if fd.Recv == nil || fd.Name.Name != "HashTreeRoot" || fd.Body == nil || !strings.Contains(pk.PkgPath, "/eth2") {
			return
		}
		info := pk.TypesInfo
		f, _ := info.Defs[fd.Name].(*types.Func)
		if f == nil {
			return
		}
		sig := f.Type().(*types.Signature)
		if sig.Results().Len() != 1 {
			return
		}
		var hobj *types.Var
		for i := 0; i < sig.Params().Len(); i++ {
			if pn := namedOf(sig.Params().At(i).Type()); pn != nil && pn.Obj().Name() == "HashFn" {
				hobj = sig.Params().At(i)
			}
		}
		if hobj == nil {
			return
		}
		var robj types.Object
		if len(fd.Recv.List) == 1 && len(fd.Recv.List[0].Names) == 1 {
			robj = info.Defs[fd.Recv.List[0].Names[0]]
		}
		key := pkgShort(pk.Types) + "." + funcName(fd)
		mentions := func(e ast.Node, o types.Object) bool {
			hit := false
			if o == nil {
				return false
			}
			ast.Inspect(e, func(k ast.Node) bool {
				if id, ok := k.(*ast.Ident); ok && info.Uses[id] == o {
					hit = true
				}
				return !hit
			})
			return hit
		}
		// locals that received bytes of the receiver (copy(out[:], recv[:]), out := recv, out[i] = recv[i])
		fromRecv := map[types.Object]bool{}
		ast.Inspect(fd.Body, func(k ast.Node) bool {
			switch x := k.(type) {
			case *ast.AssignStmt:
				for i, l := range x.Lhs {
					var rhs ast.Expr
					if len(x.Rhs) == len(x.Lhs) {
						rhs = x.Rhs[i]
					} else if len(x.Rhs) == 1 {
						rhs = x.Rhs[0]
					}
					if rhs == nil || !(mentions(rhs, robj) || mentions(rhs, hobj)) {
						continue
					}
					root := l
					for {
						switch y := ast.Unparen(root).(type) {
						case *ast.IndexExpr:
							root = y.X
							continue
						case *ast.SelectorExpr:
							root = y.X
							continue
						case *ast.SliceExpr:
							root = y.X
							continue
						}
						break
					}
					if id, ok := ast.Unparen(root).(*ast.Ident); ok {
						if o := info.ObjectOf(id); o != nil {
							fromRecv[o] = true
						}
					}
				}
			case *ast.CallExpr:
				if id, ok := ast.Unparen(x.Fun).(*ast.Ident); ok && id.Name == "copy" && len(x.Args) == 2 && (mentions(x.Args[1], robj)) {
					ast.Inspect(x.Args[0], func(k2 ast.Node) bool {
						if id2, ok := k2.(*ast.Ident); ok {
							if o := info.ObjectOf(id2); o != nil {
								fromRecv[o] = true
							}
						}
						return true
					})
				}
			}
			return true
		})
		ast.Inspect(fd.Body, func(k ast.Node) bool {
			if _, ok := k.(*ast.FuncLit); ok {
				return false
			}
			r, ok := k.(*ast.ReturnStmt)
			if !ok {
				return true
			}
			n++
			rk := key
			if len(r.Results) != 1 {
				// named result: judged by what was assigned to it
				if sig.Results().At(0).Name() != "" && fromRecv[sig.Results().At(0)] {
					c.ok(rk, r.Pos(), "named result filled from the receiver / the hash function")
				} else {
					c.unm(rk, r.Pos(), "bare return")
				}
				return true
			}
			e := r.Results[0]
			switch {
			case mentions(e, hobj):
				c.ok(rk, r.Pos(), "computed with the hash function")
			case mentions(e, robj):
				c.ok(rk, r.Pos(), "the receiver's own bytes")
			default:
				derived := false
				ast.Inspect(e, func(k2 ast.Node) bool {
					if id, ok := k2.(*ast.Ident); ok && fromRecv[info.ObjectOf(id)] {
						derived = true
					}
					return !derived
				})
				if derived {
					c.ok(rk, r.Pos(), "a local filled from the receiver / the hash function")
				} else {
					c.bad(rk, r.Pos(), "%s returns {%s}: neither computed with the hash function nor taken from the receiver — a fixed root for every value of the type", key, types.ExprString(e))
				}
			}
			return true
		})
	})
	c.stat("htr_returns", n)
}

// ---------------------------------------------------------------------------------------------------------------
// bls.verify, clause `.primitive`: WHICH verification a function makes is part of the specification (bls.Verify per
// signed object, FastAggregateVerify over one message for an aggregate, eth_fast_aggregate_verify for the sync
// aggregate). One AggregateVerify over two (key, message) pairs and the sum of their signatures is not two Verify
// calls: signatures whose errors cancel pass. Per reviewed function, the primitives it calls — directly or through the
// package's unexported helpers, counted per call site — are the reviewed ones.

var blsPrimitiveTable = map[string]string{
	"altair.ProcessSyncAggregate":                         "Eth2FastAggregateVerify", // eth_fast_aggregate_verify (an empty committee with the infinity signature passes)
	"altair.SignedContributionAndProof.VerifySignature":   "Verify",
	"altair.SyncCommitteeContribution.VerifySignature":    "Eth2FastAggregateVerify",
	"altair.SyncCommitteeMessage.VerifySignature":         "Verify",
	"altair.ValidateSyncAggregatorSelectionProof":         "Verify",
	"capella.ProcessBLSToExecutionChange":                 "Verify",
	"common.BeaconBlockEnvelope.VerifySignatureVersioned": "Verify",
	"deneb.ValidateVoluntaryExit":                         "Verify",
	"gossipval.ValidateAggregateAndProof":                 "Verify",
	"gossipval.ValidateAttestation":                       "Verify", // an unaggregated attestation has one attester
	"phase0.ProcessDeposit":                               "Verify",
	"phase0.ProcessRandaoReveal":                          "Verify",
	"phase0.ValidateAggregateSelectionProof":              "Verify",
	"phase0.ValidateIndexedAttestationSignature":          "Eth2FastAggregateVerify", // the empty index list is refused before
	"phase0.ValidateProposerSlashing":                     "Verify,Verify",           // one per signed header
	"phase0.ValidateVoluntaryExit":                        "Verify",
}

func blsPrimitives(c *Ctx) {
	type fnInfo struct {
		pk     *packages.Package
		fd     *ast.FuncDecl
		direct []string
		calls  []*types.Func
	}
	fns := map[*types.Func]*fnInfo{}
	byName := map[string]*types.Func{}
	c.P.funcDecls(func(pk *packages.Package, fd *ast.FuncDecl) {
		if fd.Body == nil || !strings.Contains(pk.PkgPath, "/eth2") {
			return
		}
		f, _ := pk.TypesInfo.Defs[fd.Name].(*types.Func)
		if f == nil {
			return
		}
		fi := &fnInfo{pk: pk, fd: fd}
		ast.Inspect(fd.Body, func(k ast.Node) bool {
			call, ok := k.(*ast.CallExpr)
			if !ok {
				return true
			}
			g := calleeFunc(pk.TypesInfo, call)
			if g == nil {
				return true
			}
			if isBLSVerifyCall(pk.TypesInfo, call) {
				fi.direct = append(fi.direct, g.Name())
			} else if g.Pkg() == pk.Types && !g.Exported() {
				fi.calls = append(fi.calls, g)
			}
			return true
		})
		fns[f] = fi
		byName[pkgShort(pk.Types)+"."+funcName(fd)] = f
	})
	reached := map[*types.Func]bool{}
	var total func(f *types.Func, depth int, top bool) []string
	total = func(f *types.Func, depth int, top bool) []string {
		fi := fns[f]
		if fi == nil || depth > 3 {
			return nil
		}
		if !top {
			if _, tabled := blsPrimitiveTable[pkgShort(fi.pk.Types)+"."+funcName(fi.fd)]; tabled {
				return nil
			}
		}
		reached[f] = true
		out := append([]string{}, fi.direct...)
		for _, g := range fi.calls {
			out = append(out, total(g, depth+1, false)...)
		}
		return out
	}
	var names []string
	for k := range blsPrimitiveTable {
		names = append(names, k)
	}
	sort.Strings(names)
	for _, name := range names {
		f := byName[name]
		if f == nil {
			c.unm(name+".primitive", token.NoPos, "reviewed verifying function %s not found", name)
			continue
		}
		got := total(f, 0, true)
		sort.Strings(got)
		want := strings.Split(blsPrimitiveTable[name], ",")
		kinds := func(xs []string) string {
			return strings.Join(uniqStrings(append([]string{}, xs...)), ",")
		}
		pos := fns[f].fd.Pos()
		switch {
		case strings.Join(got, ",") == strings.Join(want, ","):
			c.ok(name+".primitive", pos, "%s", strings.Join(got, ","))
		case len(got) == 0:
			c.unm(name+".primitive", pos, "%s makes no verification of its own any more (reviewed: %s)", name, strings.Join(want, ","))
		case kinds(got) == kinds(want):
			c.unm(name+".primitive", pos, "%s makes the reviewed kind of verification at another number of call sites: %s (reviewed: %s)", name, strings.Join(got, ","), strings.Join(want, ","))
		default:
			c.bad(name+".primitive", pos, "%s verifies with {%s} where the reviewed code (and the specification) verifies with {%s}: another primitive accepts another set of signatures", name, strings.Join(got, ","), strings.Join(want, ","))
		}
	}
	var rest []string
	for f, fi := range fns {
		if len(fi.direct) > 0 && !reached[f] {
			rest = append(rest, pkgShort(fi.pk.Types)+"."+funcName(fi.fd)+"="+strings.Join(fi.direct, ","))
		}
	}
	sort.Strings(rest)
	for _, r := range rest {
		name := r[:strings.Index(r, "=")]
		c.unm(name+".primitive", fns[byName[name]].fd.Pos(), "verification site outside the reviewed table: %s", r)
	}
}

// ---------------------------------------------------------------------------------------------------------------

// returnsAvoiding: the return statements (nil = the end of the body) that the control-flow graph of body reaches from
// right after the node holding `from` without passing a node that holds `avoid`. Conditions are not decided: both
// edges are followed. ok=false when from is not on the graph.
func returnsAvoiding(body *ast.BlockStmt, from, avoid ast.Node) (rets []*ast.ReturnStmt, fellOff bool, ok bool) {
	g := cfg.New(body, func(*ast.CallExpr) bool { return true })
	contains := func(root, t ast.Node) bool {
		found := false
		ast.Inspect(root, func(k ast.Node) bool {
			if k == t {
				found = true
			}
			return !found
		})
		return found
	}
	var sb *cfg.Block
	si := -1
	for _, b := range g.Blocks {
		for i, n := range b.Nodes {
			if sb == nil && contains(n, from) {
				sb, si = b, i+1
			}
		}
	}
	if sb == nil {
		return nil, false, false
	}
	seen := map[*cfg.Block]bool{}
	var walk func(b *cfg.Block, i int)
	walk = func(b *cfg.Block, i int) {
		if i == 0 {
			if seen[b] {
				return
			}
			seen[b] = true
		}
		for ; i < len(b.Nodes); i++ {
			if contains(b.Nodes[i], avoid) {
				return
			}
			if r, isRet := b.Nodes[i].(*ast.ReturnStmt); isRet {
				rets = append(rets, r)
				return
			}
		}
		if len(b.Succs) == 0 {
			fellOff = true
		}
		for _, s := range b.Succs {
			walk(s, 0)
		}
	}
	walk(sb, si)
	return rets, fellOff, true
}

// ---------------------------------------------------------------------------------------------------------------

func init() {
	register(&Rule{Name: "numeric.signed", Floor: 0,
		Doc: "no difference is taken between two unsigned values that were each turned into a signed integer of the same or a smaller width (int64(t) - int64(genesis) for 64-bit timestamps): the difference is only right while the operands are less than half the range apart, beyond that its sign is wrong. The unsigned difference behind an ordering test (if t < g {…}; t - g) is exact over the whole domain",
		Run: ruleNumericSigned})
}

func ruleNumericSigned(c *Ctx) {
	n, subs := 0, 0
	intBits := func(b *types.Basic) (bits int, signed bool, ok bool) {
		switch b.Kind() {
		case types.Int8:
			return 8, true, true
		case types.Int16:
			return 16, true, true
		case types.Int32:
			return 32, true, true
		case types.Int64, types.Int:
			return 64, true, true
		case types.Uint8:
			return 8, false, true
		case types.Uint16:
			return 16, false, true
		case types.Uint32:
			return 32, false, true
		case types.Uint64, types.Uint, types.Uintptr:
			return 64, false, true
		}
		return 0, false, false
	}
	c.P.funcDecls(func(pk *packages.Package, fd *ast.FuncDecl) {
		if fd.Body == nil || !strings.Contains(pk.PkgPath, "/eth2") {
			return
		}
		info := pk.TypesInfo
		fname := pkgShort(pk.Types) + "." + funcName(fd)
		defs := singleDefs(info, fd.Body)
		// lossy: e is (through single-definition locals) a conversion unsigned -> signed of no greater width
		var lossy func(e ast.Expr, depth int) (bool, string)
		lossy = func(e ast.Expr, depth int) (bool, string) {
			if depth > 3 {
				return false, ""
			}
			switch x := ast.Unparen(e).(type) {
			case *ast.CallExpr:
				if !isConversion(info, x) || len(x.Args) != 1 {
					return false, ""
				}
				if tv, ok := info.Types[x.Args[0]]; ok && tv.Value != nil {
					return false, "" // a constant: checked by the compiler
				}
				to, ok1 := info.TypeOf(x).Underlying().(*types.Basic)
				from, ok2 := info.TypeOf(x.Args[0]).Underlying().(*types.Basic)
				if !ok1 || !ok2 {
					return false, ""
				}
				tb, ts, okT := intBits(to)
				fb, fs, okF := intBits(from)
				if okT && okF && ts && !fs && tb <= fb {
					return true, types.ExprString(x)
				}
				if okT && okF && ts && fs {
					return lossy(x.Args[0], depth+1) // int(int64(u))
				}
			case *ast.Ident:
				if d, ok := defs[info.ObjectOf(x)]; ok && d.n == 1 && d.rhs != nil {
					return lossy(d.rhs, depth+1)
				}
			}
			return false, ""
		}
		seen := 0
		report := func(pos token.Pos, what, conv string) {
			n++
			seen++
			key := fname + ":" + conv
			c.bad(key, pos, "%s %s the signed conversions %s of unsigned values: the result is only right while the operands are less than half the unsigned range apart (subtract unsigned behind an ordering test instead)", fname, what, conv)
		}
		ast.Inspect(fd.Body, func(k ast.Node) bool {
			switch x := k.(type) {
			case *ast.BinaryExpr:
				if x.Op != token.SUB {
					return true
				}
				subs++
				// both operands: a signed DIFFERENCE of two unsigned quantities (a signed accumulator that an unsigned
				// amount is added to or taken from — vote deltas — is another thing)
				isX, convX := lossy(x.X, 0)
				isY, convY := lossy(x.Y, 0)
				if isX && isY {
					report(x.Pos(), "takes the difference of", convX+" - "+convY)
				}
			}
			return true
		})
	})
	if n == 0 {
		c.ok("zrnt", token.NoPos, "none of the %d subtractions of zrnt works on a signed conversion of an unsigned value", subs)
	}
	c.stat("subtractions", subs)
}
