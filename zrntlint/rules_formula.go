package main

import (
	"fmt"
	"go/ast"
	"go/token"
	"go/types"
	"os"
	"strings"

	"golang.org/x/tools/go/packages"
)

// A formula site: the value given to a local (by := / = / op=), in canonical polynomial form over parameters, fields,
// spec constants and calls, one assignment at a time (locals are NOT substituted: each entry reads like one line of the spec; the
// type-named form makes renamed locals immaterial). Integer division and modulo stay opaque, canonical atoms: a*b/c and a/c*b are different formulas.
type formulaSite struct {
	fn, target string
	tok        token.Token
	pos        token.Pos
	named, abs string
	text       string
}

func hasArith(e ast.Expr) bool {
	found := false
	ast.Inspect(e, func(n ast.Node) bool {
		if be, ok := n.(*ast.BinaryExpr); ok {
			switch be.Op {
			case token.ADD, token.SUB, token.MUL, token.QUO, token.REM, token.SHL, token.SHR:
				found = true
			}
		}
		return !found
	})
	return found
}

func collectFormulas(p *Prog) map[string][]formulaSite {
	out := map[string][]formulaSite{}
	p.funcDecls(func(pk *packages.Package, fd *ast.FuncDecl) {
		if fd.Body == nil || !strings.Contains(pk.PkgPath, "/eth2/") {
			return
		}
		info := pk.TypesInfo
		fn := pkgShort(pk.Types) + "." + funcName(fd)
		add := func(target string, tok token.Token, rhs ast.Expr, pos token.Pos) {
			if !hasArith(rhs) {
				// a bare value is a formula only for accumulators (x += v)
				if tok == token.ASSIGN || tok == token.DEFINE {
					return
				}
			}
			named, ok := exprPoly(info, rhs, nil, nil, 0)
			if !ok {
				return
			}
			polyAbstract = true
			polyAbsSeen = nil
			abs, ok2 := exprPoly(info, rhs, nil, nil, 0)
			polyAbstract = false
			if !ok2 {
				return
			}
			out[fn] = append(out[fn], formulaSite{fn, target, tok, pos, named.String(), abs.String(), types.ExprString(rhs)})
		}
		ast.Inspect(fd.Body, func(n ast.Node) bool {
			switch x := n.(type) {
			case *ast.AssignStmt:
				if len(x.Lhs) != 1 || len(x.Rhs) != 1 {
					return true
				}
				add(strings.ReplaceAll(types.ExprString(x.Lhs[0]), " ", ""), x.Tok, x.Rhs[0], x.Pos())
			case *ast.ExprStmt:
				// arithmetic handed straight to a call: buf writes, setters
				if call, ok := x.X.(*ast.CallExpr); ok {
					if fobj := callee(info, call); fobj != nil {
						for i, a := range call.Args {
							if hasArith(a) {
								add(fmt.Sprintf("call:%s#%d", fobj.Name(), i), token.ASSIGN, a, x.Pos())
							}
						}
					}
				}
			case *ast.ReturnStmt:
				for i, r := range x.Results {
					if hasArith(r) {
						add(fmt.Sprintf("return#%d", i), token.ASSIGN, r, x.Pos())
					}
				}
			}
			return true
		})
	})
	return out
}

func init() {
	if len(os.Args) > 1 && os.Args[1] == "formulas" {
		p, err := load(loadOpts{repo: dumpRepo()})
		if err != nil {
			fmt.Println(err)
			os.Exit(2)
		}
		all := collectFormulas(p)
		for _, fn := range sortedKeys(all) {
			if len(os.Args) > 2 && !strings.Contains(fn, os.Args[2]) {
				continue
			}
			for _, s := range all[fn] {
				fmt.Printf("%s\t%s\t%s\t%s\t%s\t%s\n", s.fn, s.target, s.tok, s.named, s.abs, s.text)
			}
		}
		os.Exit(0)
	}
}

// formulaSpec: the arithmetic assigned to one target in one function (all assignments to it, as a multiset).
type formulaSpec struct {
	fn, target string
	named      []string // "<tok> <polynomial>" with operand names
	abs        []string // the same with locals/parameters named by type
	spec       string
}

func init() {
	register(&Rule{Name: "formula.spec", Floor: 40,
		Doc: "each tabled assignment of the spec's arithmetic (rewards, penalties, slashing, hysteresis, churn, committee slicing, subnets, withdrawals sweep, timing) is present in its function with exactly the reviewed formula: both sides are put in canonical polynomial form over the operands (commutative/associative rewriting, constant folding, conversions stripped), integer division and modulo kept as opaque ordered atoms (so a*b/c and a/c*b differ). A match on operand names, or failing that on the type-named form (renamed locals), discharges the entry; a target that still exists but carries another formula is a violation; a target that cannot be found is undecided, never a pass",
		Run: ruleFormulaSpec})
}

func sameMultiset(a, b []string) bool {
	if len(a) != len(b) {
		return false
	}
	cnt := map[string]int{}
	for _, x := range a {
		cnt[x]++
	}
	for _, x := range b {
		cnt[x]--
	}
	for _, n := range cnt {
		if n != 0 {
			return false
		}
	}
	return true
}

func ruleFormulaSpec(c *Ctx) {
	all := collectFormulas(c.P)
	for _, e := range formulaTable {
		key := e.fn + ":" + e.target
		sites := all[e.fn]
		if _, ok := all[e.fn]; !ok {
			c.unm(key, token.NoPos, "function %s not found (or has no arithmetic)", e.fn)
			continue
		}
		var named, abs []string
		var pos token.Pos
		var texts []string
		for _, s := range sites {
			if s.target == e.target {
				named = append(named, s.tok.String()+" "+s.named)
				abs = append(abs, s.tok.String()+" "+s.abs)
				texts = append(texts, s.text)
				if pos == token.NoPos {
					pos = s.pos
				}
			}
		}
		if len(named) == 0 {
			// renamed target? look for the same type-named formulas under another single target
			byTarget := map[string][]string{}
			for _, s := range sites {
				byTarget[s.target] = append(byTarget[s.target], s.tok.String()+" "+s.abs)
			}
			found := false
			for _, t := range sortedKeys(byTarget) {
				if sameMultiset(byTarget[t], e.abs) {
					c.ok(key, sites[0].pos, "same formula, assigned to %s (renamed): %s", t, e.spec)
					found = true
					break
				}
			}
			if !found {
				c.unm(key, sites[0].pos, "no assignment to %s in %s and no other target carries its formula (%s)", e.target, e.fn, e.spec)
			}
			continue
		}
		switch {
		case sameMultiset(named, e.named):
			c.ok(key, pos, "%s", e.spec)
		case sameMultiset(abs, e.abs):
			c.ok(key, pos, "%s (operands renamed)", e.spec)
		default:
			c.bad(key, pos, "%s computes %s as {%s}; in canonical form that is {%s}, the reviewed formula is {%s} — spec: %s", e.fn, e.target, strings.Join(texts, " ; "), strings.Join(named, " ; "), strings.Join(e.named, " ; "), e.spec)
		}
	}
}
