package main

import (
	"fmt"
	"go/ast"
	"go/token"
	"go/types"
	"os"
	"regexp"
	"sort"
	"strings"

	"golang.org/x/tools/go/packages"
)

// A formula site: the value given to a local (by := / = / op=), in canonical polynomial form over parameters, fields,
// spec constants and calls, one assignment at a time (locals are NOT substituted: each entry reads like one line of the spec; the
// type-named form makes renamed locals immaterial). Integer division and modulo stay opaque, canonical atoms: a*b/c and a/c*b are different formulas.
type formulaSite struct {
	fn, target string
	tok        token.Token
	pos        token.Pos
	named, abs string
	text       string
}

func hasArith(e ast.Expr) bool {
	found := false
	ast.Inspect(e, func(n ast.Node) bool {
		if be, ok := n.(*ast.BinaryExpr); ok {
			switch be.Op {
			case token.ADD, token.SUB, token.MUL, token.QUO, token.REM, token.SHL, token.SHR:
				found = true
			}
		}
		return !found
	})
	return found
}

// callWithConstArg: a call one of whose arguments is a constant or a negated value (slotAfter(-DISPARITY)): the
// sign and the constant are part of the formula.
func callWithConstArg(info *types.Info, e ast.Expr) bool {
	call, ok := ast.Unparen(e).(*ast.CallExpr)
	if !ok || isConversion(info, call) {
		return false
	}
	for _, a := range call.Args {
		if tv, ok := info.Types[a]; ok && tv.Value != nil {
			if b, ok := tv.Type.Underlying().(*types.Basic); ok && b.Info()&types.IsNumeric != 0 {
				return true
			}
		}
		if ue, ok := ast.Unparen(a).(*ast.UnaryExpr); ok && ue.Op == token.SUB {
			return true
		}
	}
	return false
}

func hasBoolOp(e ast.Expr) bool {
	found := false
	ast.Inspect(e, func(n ast.Node) bool {
		if be, ok := n.(*ast.BinaryExpr); ok && (be.Op == token.LAND || be.Op == token.LOR) {
			found = true
		}
		return !found
	})
	return found
}

// boolForm: canonical text of a boolean expression: and(...)/or(...) with sorted operands, not(...), comparisons as
// oriented polynomials, everything else as (possibly type-named) atoms.
func boolForm(info *types.Info, e ast.Expr) string {
	e = ast.Unparen(e)
	switch x := e.(type) {
	case *ast.BinaryExpr:
		switch x.Op {
		case token.LAND, token.LOR:
			parts := flattenBool(x, x.Op)
			var fs []string
			for _, p := range parts {
				fs = append(fs, boolForm(info, p))
			}
			sort.Strings(fs)
			name := "and"
			if x.Op == token.LOR {
				name = "or"
			}
			return name + "(" + strings.Join(fs, "; ") + ")"
		case token.EQL, token.NEQ, token.LSS, token.LEQ, token.GTR, token.GEQ:
			l, ok1 := exprPoly(info, x.X, nil, nil, 0)
			r, ok2 := exprPoly(info, x.Y, nil, nil, 0)
			if ok1 && ok2 {
				return "[" + orient(polyAdd(l, r, -1), x.Op) + "]"
			}
			a, b := strings.ReplaceAll(types.ExprString(x.X), " ", ""), strings.ReplaceAll(types.ExprString(x.Y), " ", "")
			if polyAbstract {
				a, b = absName(info, x.X), absName(info, x.Y)
			}
			if (x.Op == token.EQL || x.Op == token.NEQ) && b < a {
				a, b = b, a
			}
			return "[" + a + x.Op.String() + b + "]"
		}
	case *ast.UnaryExpr:
		if x.Op == token.NOT {
			return "not(" + boolForm(info, x.X) + ")"
		}
	}
	if p, ok := exprPoly(info, e, nil, nil, 0); ok {
		return p.String()
	}
	if polyAbstract {
		return absName(info, e)
	}
	return strings.ReplaceAll(types.ExprString(e), " ", "")
}

var formulaDecls = map[string]cmpDecl{}

var identTokRe = regexp.MustCompile(`[A-Za-z_][A-Za-z0-9_]*`)

// stillDeclared: identifiers that the reviewed form mentions, today's form does not, and that are still declared in
// the function (as a local, parameter or named result): the value was replaced, not renamed.
func stillDeclared(fn string, want, got []string) []string {
	d, ok := formulaDecls[fn]
	if !ok {
		return nil
	}
	have := map[string]bool{}
	for _, g := range got {
		for _, t := range identTokRe.FindAllString(g, -1) {
			have[t] = true
		}
	}
	var out []string
	seen := map[string]bool{}
	for _, w := range want {
		for _, t := range identTokRe.FindAllString(w, -1) {
			if have[t] || seen[t] {
				continue
			}
			seen[t] = true
			decl := false
			ast.Inspect(d.fd, func(n ast.Node) bool {
				if id, ok := n.(*ast.Ident); ok && id.Name == t && d.pk.TypesInfo.Defs[id] != nil {
					if _, isVar := d.pk.TypesInfo.Defs[id].(*types.Var); isVar {
						decl = true
					}
				}
				return !decl
			})
			if decl {
				out = append(out, t)
			}
		}
	}
	return out
}

func collectFormulas(p *Prog) map[string][]formulaSite {
	out := map[string][]formulaSite{}
	formulaDecls = map[string]cmpDecl{}
	p.funcDecls(func(pk *packages.Package, fd *ast.FuncDecl) {
		if fd.Body == nil || !strings.Contains(pk.PkgPath, "/eth2/") {
			return
		}
		info := pk.TypesInfo
		fn := pkgShort(pk.Types) + "." + funcName(fd)
		formulaDecls[fn] = cmpDecl{pk, fd}
		add := func(target string, tok token.Token, rhs ast.Expr, pos token.Pos) {
			if hasBoolOp(rhs) {
				if b, ok := info.TypeOf(rhs).Underlying().(*types.Basic); ok && b.Kind() == types.Bool {
					named := boolForm(info, rhs)
					polyAbstract = true
					polyAbsSeen = nil
					abs := boolForm(info, rhs)
					polyAbstract = false
					out[fn] = append(out[fn], formulaSite{fn, target, tok, pos, named, abs, types.ExprString(rhs)})
					return
				}
			}
			if !hasArith(rhs) && !callWithConstArg(info, rhs) {
				// a bare value is a formula only for accumulators (x += v)
				if tok == token.ASSIGN || tok == token.DEFINE {
					return
				}
			}
			named, ok := exprPoly(info, rhs, nil, nil, 0)
			if !ok {
				return
			}
			polyAbstract = true
			polyAbsSeen = nil
			abs, ok2 := exprPoly(info, rhs, nil, nil, 0)
			polyAbstract = false
			if !ok2 {
				return
			}
			out[fn] = append(out[fn], formulaSite{fn, target, tok, pos, named.String(), abs.String(), types.ExprString(rhs)})
		}
		ast.Inspect(fd.Body, func(n ast.Node) bool {
			switch x := n.(type) {
			case *ast.AssignStmt:
				if len(x.Lhs) != 1 || len(x.Rhs) != 1 {
					return true
				}
				add(strings.ReplaceAll(types.ExprString(x.Lhs[0]), " ", ""), x.Tok, x.Rhs[0], x.Pos())
			case *ast.ExprStmt:
				// arithmetic handed straight to a call: buf writes, setters
				if call, ok := x.X.(*ast.CallExpr); ok {
					if fobj := callee(info, call); fobj != nil {
						for i, a := range call.Args {
							if hasArith(a) {
								add(fmt.Sprintf("call:%s#%d", fobj.Name(), i), token.ASSIGN, a, x.Pos())
							}
						}
					}
				}
			case *ast.ReturnStmt:
				for i, r := range x.Results {
					if hasArith(r) || hasBoolOp(r) {
						add(fmt.Sprintf("return#%d", i), token.ASSIGN, r, x.Pos())
					}
				}
			}
			return true
		})
	})
	return out
}

func init() {
	if len(os.Args) > 1 && os.Args[1] == "formulas" {
		p, err := load(loadOpts{repo: dumpRepo()})
		if err != nil {
			fmt.Println(err)
			os.Exit(2)
		}
		all := collectFormulas(p)
		for _, fn := range sortedKeys(all) {
			if len(os.Args) > 2 && !strings.Contains(fn, os.Args[2]) {
				continue
			}
			for _, s := range all[fn] {
				fmt.Printf("%s\t%s\t%s\t%s\t%s\t%s\n", s.fn, s.target, s.tok, s.named, s.abs, s.text)
			}
		}
		os.Exit(0)
	}
}

// formulaSpec: the arithmetic assigned to one target in one function (all assignments to it, as a multiset).
type formulaSpec struct {
	fn, target string
	named      []string // "<tok> <polynomial>" with operand names
	abs        []string // the same with locals/parameters named by type
	spec       string
}

func init() {
	register(&Rule{Name: "formula.spec", Floor: 40,
		Doc: "each tabled assignment of the spec's arithmetic (rewards, penalties, slashing, hysteresis, churn, committee slicing, subnets, withdrawals sweep, timing) is present in its function with exactly the reviewed formula: both sides are put in canonical polynomial form over the operands (commutative/associative rewriting, constant folding, conversions stripped), integer division and modulo kept as opaque ordered atoms (so a*b/c and a/c*b differ). A match on operand names, or failing that on the type-named form (renamed locals), discharges the entry; a target that still exists but carries another formula is a violation; a target that cannot be found is undecided, never a pass",
		Run: ruleFormulaSpec})
}

func sameMultiset(a, b []string) bool {
	if len(a) != len(b) {
		return false
	}
	cnt := map[string]int{}
	for _, x := range a {
		cnt[x]++
	}
	for _, x := range b {
		cnt[x]--
	}
	for _, n := range cnt {
		if n != 0 {
			return false
		}
	}
	return true
}

func ruleFormulaSpec(c *Ctx) {
	all := collectFormulas(c.P)
	for _, e := range formulaTable {
		key := e.fn + ":" + e.target
		sites := all[e.fn]
		if _, ok := all[e.fn]; !ok {
			c.unm(key, token.NoPos, "function %s not found (or has no arithmetic)", e.fn)
			continue
		}
		var named, abs []string
		var pos token.Pos
		var texts []string
		for _, s := range sites {
			if s.target == e.target {
				named = append(named, s.tok.String()+" "+s.named)
				abs = append(abs, s.tok.String()+" "+s.abs)
				texts = append(texts, s.text)
				if pos == token.NoPos {
					pos = s.pos
				}
			}
		}
		if len(named) == 0 {
			// renamed target? look for the same type-named formulas under another single target
			byTarget := map[string][]string{}
			for _, s := range sites {
				byTarget[s.target] = append(byTarget[s.target], s.tok.String()+" "+s.abs)
			}
			found := false
			for _, t := range sortedKeys(byTarget) {
				if sameMultiset(byTarget[t], e.abs) {
					c.ok(key, sites[0].pos, "same formula, assigned to %s (renamed): %s", t, e.spec)
					found = true
					break
				}
			}
			if !found {
				c.unm(key, sites[0].pos, "no assignment to %s in %s and no other target carries its formula (%s)", e.target, e.fn, e.spec)
			}
			continue
		}
		switch {
		case sameMultiset(named, e.named):
			c.ok(key, pos, "%s", e.spec)
		case sameMultiset(abs, e.abs):
			if sw := stillDeclared(e.fn, e.named, named); len(sw) > 0 {
				c.bad(key, pos, "%s computes %s as {%s}: the shape is the reviewed one but it no longer uses %v, which still exist(s) in the function — another value of the same type was put in its place (reviewed: {%s}; spec: %s)", e.fn, e.target, strings.Join(texts, " ; "), sw, strings.Join(e.named, " ; "), e.spec)
			} else {
				c.ok(key, pos, "%s (operands renamed)", e.spec)
			}
		default:
			c.bad(key, pos, "%s computes %s as {%s}; in canonical form that is {%s}, the reviewed formula is {%s} — spec: %s", e.fn, e.target, strings.Join(texts, " ; "), strings.Join(named, " ; "), strings.Join(e.named, " ; "), e.spec)
		}
	}
}
