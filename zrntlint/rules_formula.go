package main

import (
	"fmt"
	"go/ast"
	"go/token"
	"go/types"
	"os"
	"regexp"
	"sort"
	"strings"

	"golang.org/x/tools/go/packages"
)

// A formula site: the value given to a local (by := / = / op=), in canonical polynomial form over parameters, fields,
// spec constants and calls, one assignment at a time (locals are NOT substituted: each entry reads like one line of the spec; the
// type-named form makes renamed locals immaterial). Integer division and modulo stay opaque, canonical atoms: a*b/c and a/c*b are different formulas.
type formulaSite struct {
	fn, target string
	tok        token.Token
	pos        token.Pos
	named, abs string
	text       string
	res        string   // named form with single-definition locals substituted (an extracted or inlined local is immaterial)
	ra         string   // the type-named form with locals substituted (renamed AND moved)
	via        string   // the unexported helper the site was read in, at one of its call sites
	assume     []string // for boolean sites: conditions known to hold where the site stands (resolved NNF), see assumptionsAt
	guard      string   // for updates of fields / elements and arguments of calls: the conditions under which the statement runs (resolved NNF conjuncts, sorted; tests of errors and nil left out)
	pnamed     string   // the named form with only the locals the reviewed function did NOT have read through ("" when it is the named form)
	rtarget    string   // the assigned place with single-definition locals read through (node.Weight -> pr.nodes[i].Weight), "" when unreadable
}

func hasArith(e ast.Expr) bool {
	found := false
	ast.Inspect(e, func(n ast.Node) bool {
		if be, ok := n.(*ast.BinaryExpr); ok {
			switch be.Op {
			case token.ADD, token.SUB, token.MUL, token.QUO, token.REM, token.SHL, token.SHR:
				found = true
			}
		}
		// min(a, b) / max(a, b) are arithmetic too (the spec's caps and floors)
		if call, ok := n.(*ast.CallExpr); ok {
			if id, ok := call.Fun.(*ast.Ident); ok && (id.Name == "min" || id.Name == "max") && len(call.Args) >= 2 {
				found = true
			}
		}
		return !found
	})
	return found
}

// callWithConstArg: a call one of whose arguments is a constant or a negated value (slotAfter(-DISPARITY)): the
// sign and the constant are part of the formula.
func callWithConstArg(info *types.Info, e ast.Expr) bool {
	call, ok := ast.Unparen(e).(*ast.CallExpr)
	if !ok || isConversion(info, call) {
		return false
	}
	for _, a := range call.Args {
		if tv, ok := info.Types[a]; ok && tv.Value != nil {
			if b, ok := tv.Type.Underlying().(*types.Basic); ok && b.Info()&types.IsNumeric != 0 {
				return true
			}
		}
		if ue, ok := ast.Unparen(a).(*ast.UnaryExpr); ok && ue.Op == token.SUB {
			return true
		}
	}
	return false
}

// callWithArithLocal: a call one of whose arguments is a local defined once as an arithmetic expression
// (t := a + b; f(t)): the same formula as f(a + b), which the resolved form spells out.
func callWithArithLocal(info *types.Info, e ast.Expr, defs map[types.Object]localDef) bool {
	call, ok := ast.Unparen(e).(*ast.CallExpr)
	if !ok || isConversion(info, call) {
		return false
	}
	for _, a := range call.Args {
		if id, ok := ast.Unparen(stripConv(info, a)).(*ast.Ident); ok {
			if d, ok := defs[info.Uses[id]]; ok && d.pos == 0 && d.n == 1 && d.rhs != nil && hasArith(d.rhs) {
				return true
			}
		}
	}
	return false
}

func isComparison(e ast.Expr) bool {
	e = ast.Unparen(e)
	if u, ok := e.(*ast.UnaryExpr); ok && u.Op == token.NOT {
		return isComparison(u.X)
	}
	be, ok := e.(*ast.BinaryExpr)
	if !ok {
		return false
	}
	switch be.Op {
	case token.EQL, token.NEQ, token.LSS, token.LEQ, token.GTR, token.GEQ:
		return true
	}
	return false
}

// tabledBoolTarget: target is a reviewed target of fn whose reviewed formula is a conjunction / disjunction.
func tabledBoolTarget(fn, target string) bool {
	for _, e := range formulaTable {
		if e.fn == fn && e.target == target {
			for _, x := range e.named {
				if strings.HasPrefix(x, "= and(") || strings.HasPrefix(x, "= or(") {
					return true
				}
			}
		}
	}
	return false
}

func hasBoolOp(e ast.Expr) bool {
	found := false
	ast.Inspect(e, func(n ast.Node) bool {
		if be, ok := n.(*ast.BinaryExpr); ok && (be.Op == token.LAND || be.Op == token.LOR) {
			found = true
		}
		return !found
	})
	return found
}

// boolForm: canonical text of a boolean expression, in negation normal form: negations are pushed inwards (De Morgan;
// a negated comparison is the opposite comparison), and(...)/or(...) are flattened and their operands sorted,
// comparisons are oriented polynomials, everything else is a (possibly type-named) atom or not(atom).
func boolForm(info *types.Info, e ast.Expr, defs map[types.Object]localDef) string {
	return boolNNF(info, e, defs, false, 0)
}

func boolNNF(info *types.Info, e ast.Expr, defs map[types.Object]localDef, neg bool, depth int) string {
	e = ast.Unparen(e)
	if depth > 24 {
		return "?"
	}
	join := func(name string, parts []string) string {
		// flatten nested same-name groups
		var flat []string
		for _, p := range parts {
			if strings.HasPrefix(p, name+"(") && strings.HasSuffix(p, ")") && balancedTop(p[len(name)+1:len(p)-1]) {
				flat = append(flat, splitTop(p[len(name)+1:len(p)-1])...)
			} else {
				flat = append(flat, p)
			}
		}
		sort.Strings(flat)
		return name + "(" + strings.Join(flat, "; ") + ")"
	}
	switch x := e.(type) {
	case *ast.BinaryExpr:
		switch x.Op {
		case token.LAND, token.LOR:
			parts := flattenBool(x, x.Op)
			var fs []string
			for _, p := range parts {
				fs = append(fs, boolNNF(info, p, defs, neg, depth+1))
			}
			name := "and"
			if (x.Op == token.LOR) != neg {
				name = "or"
			}
			return join(name, fs)
		case token.EQL, token.NEQ, token.LSS, token.LEQ, token.GTR, token.GEQ:
			op := x.Op
			if neg {
				op = negOp[op]
			}
			// comparisons with a boolean literal are the operand itself
			for _, pr := range [][2]ast.Expr{{x.X, x.Y}, {x.Y, x.X}} {
				if id, ok := ast.Unparen(pr[1]).(*ast.Ident); ok && (id.Name == "true" || id.Name == "false") && (x.Op == token.EQL || x.Op == token.NEQ) {
					n2 := neg
					if (id.Name == "false") != (x.Op == token.NEQ) {
						n2 = !n2
					}
					return boolNNF(info, pr[0], defs, n2, depth+1)
				}
			}
			l, ok1 := exprPoly(info, x.X, defs, nil, 0)
			r, ok2 := exprPoly(info, x.Y, defs, nil, 0)
			if ok1 && ok2 {
				return "[" + canonCmp(polyAdd(l, r, -1), op) + "]"
			}
			a, b := strings.ReplaceAll(exprText(info, x.X), " ", ""), strings.ReplaceAll(exprText(info, x.Y), " ", "")
			if polyAbstract {
				a, b = absName(info, x.X), absName(info, x.Y)
			}
			switch op {
			case token.EQL, token.NEQ:
				if b < a {
					a, b = b, a
				}
			case token.GTR:
				a, b, op = b, a, token.LSS
			case token.GEQ:
				a, b, op = b, a, token.LEQ
			}
			return "[" + a + op.String() + b + "]"
		}
	case *ast.UnaryExpr:
		if x.Op == token.NOT {
			return boolNNF(info, x.X, defs, !neg, depth+1)
		}
	}
	if id, ok := e.(*ast.Ident); ok && defs != nil {
		d, has := defs[info.Uses[id]]
		if !has && polyReach != nil {
			d, has = polyReach.at(info.Uses[id], id)
		}
		if has && d.pos == 0 && d.n == 1 && d.rhs != nil {
			if b, ok := info.TypeOf(d.rhs).Underlying().(*types.Basic); ok && b.Kind() == types.Bool {
				return boolNNF(info, d.rhs, defs, neg, depth+1)
			}
		}
	}
	if id, ok := e.(*ast.Ident); ok {
		if a, ok := polyArg(info.Uses[id]); ok {
			return boolNNF(info, a, defs, neg, depth+1)
		}
		switch id.Name {
		case "true":
			if neg {
				return "false"
			}
			return "true"
		case "false":
			if neg {
				return "true"
			}
			return "false"
		}
	}
	// a call of a one-line boolean function of the package is, in the resolved forms, the condition it returns
	// (IsSurroundVote(a, b) || IsDoubleVote(a, b) and the two conditions written out are the same predicate)
	if call, ok := e.(*ast.CallExpr); ok && defs != nil && polyInline != nil && len(polyInlining) < 3 {
		if f := calleeFunc(info, call); f != nil {
			if hd, ok := polyInline[f]; ok && hd.info == info && hd.defs == nil && !polyInlining[f] {
				if b, ok := info.TypeOf(hd.ret).Underlying().(*types.Basic); ok && b.Kind() == types.Bool && (hasBoolOp(hd.ret) || isComparison(hd.ret)) {
					saved := polyArgs
					merged := map[types.Object]ast.Expr{}
					for k, v := range saved {
						merged[k] = v
					}
					i, okArgs := 0, true
					for _, fl := range hd.fd.Type.Params.List {
						for _, nm := range fl.Names {
							if i < len(call.Args) && substitutable(call.Args[i]) {
								merged[info.Defs[nm]] = call.Args[i]
							} else {
								okArgs = false
							}
							i++
						}
					}
					if hd.fd.Recv != nil {
						okArgs = false
					}
					if okArgs && i == len(call.Args) {
						polyArgs = merged
						polyInlining[f] = true
						s := boolNNF(info, hd.ret, defs, neg, depth+1)
						delete(polyInlining, f)
						polyArgs = saved
						return s
					}
				}
			}
		}
	}
	atom := ""
	if p, ok := exprPoly(info, e, defs, nil, 0); ok {
		atom = p.String()
	} else if polyAbstract {
		atom = absName(info, e)
	} else {
		atom = strings.ReplaceAll(exprText(info, e), " ", "")
	}
	if neg {
		return "not(" + atom + ")"
	}
	return atom
}

// splitTop splits "a; b; and(c; d)" at the top-level separators; balancedTop says the text is one balanced group list.
func splitTop(s string) []string {
	var out []string
	depth, start := 0, 0
	for i := 0; i < len(s); i++ {
		switch s[i] {
		case '(', '[':
			depth++
		case ')', ']':
			depth--
		case ';':
			if depth == 0 && i+1 < len(s) && s[i+1] == ' ' {
				out = append(out, s[start:i])
				start = i + 2
			}
		}
	}
	return append(out, s[start:])
}

func balancedTop(s string) bool {
	depth := 0
	for i := 0; i < len(s); i++ {
		switch s[i] {
		case '(', '[':
			depth++
		case ')', ']':
			depth--
			if depth < 0 {
				return false
			}
		}
	}
	return depth == 0
}

// boolOfBody: the boolean a function body computes when it is written as guards and a final return:
//
//	if C { return X }; rest   =  (C and X) or (not C and rest)   — with X a literal: `C or rest` / `not C and rest`
//	if C { return X } else { return Y }  likewise;  return E  =  E
//
// Returns the canonical NNF text, or "" when the body has another shape.
func boolOfBody(info *types.Info, stmts []ast.Stmt, defs map[types.Object]localDef, neg bool, depth int) string {
	if depth > 12 || len(stmts) == 0 {
		return ""
	}
	// leading plain definitions are looked through by defs
	i := 0
	for i < len(stmts) {
		switch st := stmts[i].(type) {
		case *ast.AssignStmt:
			if st.Tok == token.DEFINE {
				i++
				continue
			}
		case *ast.DeclStmt:
			i++
			continue
		}
		break
	}
	stmts = stmts[i:]
	// `if err != nil { panic(err) }` decides nothing
	for len(stmts) > 0 {
		is, ok := stmts[0].(*ast.IfStmt)
		if !ok || is.Else != nil || len(is.Body.List) != 1 {
			break
		}
		es, ok := is.Body.List[0].(*ast.ExprStmt)
		if !ok {
			break
		}
		cl, ok := es.X.(*ast.CallExpr)
		if !ok {
			break
		}
		if id, ok := cl.Fun.(*ast.Ident); !ok || id.Name != "panic" {
			break
		}
		stmts = stmts[1:]
		// and the definitions that follow it
		for len(stmts) > 0 {
			if as, ok := stmts[0].(*ast.AssignStmt); ok && as.Tok == token.DEFINE {
				stmts = stmts[1:]
				continue
			}
			break
		}
	}
	if len(stmts) == 0 {
		return ""
	}
	single := func(b ast.Stmt) ast.Expr {
		blk, ok := b.(*ast.BlockStmt)
		if !ok || len(blk.List) != 1 {
			return nil
		}
		r, ok := blk.List[0].(*ast.ReturnStmt)
		if !ok || len(r.Results) != 1 {
			return nil
		}
		return r.Results[0]
	}
	combine := func(name string, a, b string) string {
		if a == "" || b == "" {
			return ""
		}
		parts := []string{}
		for _, p := range []string{a, b} {
			if strings.HasPrefix(p, name+"(") && strings.HasSuffix(p, ")") && balancedTop(p[len(name)+1:len(p)-1]) {
				parts = append(parts, splitTop(p[len(name)+1:len(p)-1])...)
			} else {
				parts = append(parts, p)
			}
		}
		// `… and true`, `… or false`: the identity says nothing (guards followed by a plain `return true`)
		unit := map[string]string{"and": "true", "or": "false"}[name]
		kept := parts[:0]
		for _, p := range parts {
			if p != unit {
				kept = append(kept, p)
			}
		}
		parts = kept
		if len(parts) == 0 {
			return unit
		}
		if len(parts) == 1 {
			return parts[0]
		}
		sort.Strings(parts)
		return name + "(" + strings.Join(parts, "; ") + ")"
	}
	andN, orN := "and", "or"
	if neg {
		andN, orN = "or", "and"
	}
	switch st := stmts[0].(type) {
	case *ast.ReturnStmt:
		if len(st.Results) != 1 {
			return ""
		}
		return boolNNF(info, st.Results[0], defs, neg, 0)
	case *ast.IfStmt:
		if st.Init != nil {
			return ""
		}
		x := single(st.Body)
		if x == nil {
			return ""
		}
		var rest string
		if st.Else != nil {
			if y := single(st.Else); y != nil {
				rest = boolNNF(info, y, defs, neg, 0)
			} else if ei, ok := st.Else.(*ast.IfStmt); ok {
				rest = boolOfBody(info, []ast.Stmt{ei}, defs, neg, depth+1)
			}
		} else {
			rest = boolOfBody(info, stmts[1:], defs, neg, depth+1)
		}
		if rest == "" {
			return ""
		}
		c := boolNNF(info, st.Cond, defs, false, 0)
		nc := boolNNF(info, st.Cond, defs, true, 0)
		if neg {
			c, nc = nc, c
		}
		if id, ok := ast.Unparen(x).(*ast.Ident); ok && (id.Name == "false" || id.Name == "true") {
			if (id.Name == "true") != neg {
				// C -> true: value = C or rest           (negated: not C and not rest, names already swapped)
				if neg {
					return combine(andN, boolNNF(info, st.Cond, defs, true, 0), rest)
				}
				return combine(orN, boolNNF(info, st.Cond, defs, false, 0), rest)
			}
			// C -> false: value = not C and rest
			if neg {
				return combine(orN, boolNNF(info, st.Cond, defs, false, 0), rest)
			}
			return combine(andN, boolNNF(info, st.Cond, defs, true, 0), rest)
		}
		_ = c
		_ = nc
		return ""
	}
	return ""
}

var formulaDecls = map[string]cmpDecl{}

var identTokRe = regexp.MustCompile(`[A-Za-z_][A-Za-z0-9_]*`)

// stillDeclared: identifiers that the reviewed form mentions, today's form does not, and that are still declared in
// the function (as a local, parameter or named result): the value was replaced, not renamed.
func stillDeclared(fn string, want, got []string) []string {
	d, ok := formulaDecls[fn]
	if !ok {
		return nil
	}
	have := map[string]bool{}
	for _, g := range got {
		for _, t := range identTokRe.FindAllString(g, -1) {
			have[t] = true
		}
	}
	var out []string
	seen := map[string]bool{}
	for _, w := range want {
		for _, t := range identTokRe.FindAllString(w, -1) {
			if have[t] || seen[t] {
				continue
			}
			seen[t] = true
			decl := false
			ast.Inspect(d.fd, func(n ast.Node) bool {
				if id, ok := n.(*ast.Ident); ok && id.Name == t && d.pk.TypesInfo.Defs[id] != nil {
					if _, isVar := d.pk.TypesInfo.Defs[id].(*types.Var); isVar {
						decl = true
					}
				}
				return !decl
			})
			if decl {
				out = append(out, t)
			}
		}
	}
	return out
}

// formulasIn collects the formula sites written in one function; with subst, as read at one call site (see cmpsIn).
func formulasIn(pk *packages.Package, fd *ast.FuncDecl, fn string, subst map[types.Object]ast.Expr, callerRecv types.Object, callerDefs map[types.Object]localDef, callerReach *reachInfo) []formulaSite {
	var out []formulaSite
	info := pk.TypesInfo
	polyRecv, polyRecv2, polyArgs = nil, callerRecv, subst
	if fd.Recv != nil && len(fd.Recv.List) == 1 && len(fd.Recv.List[0].Names) == 1 {
		polyRecv = info.Defs[fd.Recv.List[0].Names[0]]
	}
	polyAbsorbed = map[token.Pos]bool{}
	absorbedHere := polyAbsorbed
	polyReach, polyPaths = reachingDefs(info, fd.Body), true
	if callerReach != nil {
		// the arguments of the call are read in the caller: its definitions reach them
		for o, ds := range callerReach.defs {
			if _, dup := polyReach.defs[o]; !dup {
				polyReach.defs[o] = ds
			}
		}
		for n, p := range callerReach.parents {
			polyReach.parents[n] = p
		}
		for o := range callerReach.addr {
			polyReach.addr[o] = true
		}
	}
	defer func() { polyAbsorbed = nil }()
	defer func() { polyRecv, polyRecv2, polyArgs, polyReach, polyPaths = nil, nil, nil, nil, false }()
	fdefs := withRangeValues(info, fd.Body, singleDefs(info, fd.Body))
	for o, d := range callerDefs {
		if _, dup := fdefs[o]; !dup {
			fdefs[o] = d
		}
	}
	// the single-definition locals the reviewed function did not have (`slotsPerEpoch := uint64(spec.SLOTS_PER_EPOCH)`
	// hoisted out of an expression): read through, the formula stands in the reviewed function's own names
	fdefsNew := map[types.Object]localDef{}
	if rev := reviewedTokens(fn); len(rev) > 0 {
		for o, d := range fdefs {
			if _, fromCaller := callerDefs[o]; !fromCaller && !rev[o.Name()] {
				fdefsNew[o] = d
			}
		}
	}
	fparents := parentMap(fd.Body)
	var curStmt ast.Node
	var guardNode ast.Node // the statement (or call) the formula being added belongs to
	// accumulate: x = x + v, x += v, x -= v, x++ are all "+= <poly>" (the target leaves the polynomial)
	accum := func(tok token.Token, lhs ast.Expr, p Poly, defs map[types.Object]localDef, abstract bool) (token.Token, Poly) {
		switch tok {
		case token.DEFINE:
			return token.ASSIGN, p
		case token.SUB_ASSIGN:
			return token.ADD_ASSIGN, polyMul(p, polyConst(-1))
		case token.ASSIGN:
			if lhs == nil {
				return tok, p
			}
			polyAbstract = abstract
			lp, ok := exprPoly(info, lhs, nil, nil, 0)
			polyAbstract = false
			if !ok || len(lp) != 1 {
				return tok, p
			}
			for atom, c := range lp {
				if atom == "" || c != 1 || p[atom] != 1 {
					return tok, p
				}
				rest := polyAdd(p, lp, -1)
				for k := range rest {
					if k != atom && strings.Contains(k, atom) {
						return tok, p
					}
				}
				return token.ADD_ASSIGN, rest
			}
		}
		return tok, p
	}
	add := func(target string, tok token.Token, lhs, rhs ast.Expr, pos token.Pos) {
		if tok == token.DEFINE {
			tok = token.ASSIGN
		}
		switch l := ast.Unparen(lhsOrNil(lhs)).(type) {
		case *ast.Ident:
			polySelfObj = info.ObjectOf(l)
		case *ast.SelectorExpr:
			polySelfText = strings.ReplaceAll(exprText(info, l), " ", "")
		}
		defer func() { polySelfObj, polySelfText = nil, "" }()
		// (a single comparison is a boolean formula too where the reviewed target was one with more conjuncts: the others
		// may have become facts of the path, which underAssumptions reads)
		if hasBoolOp(rhs) || (rhs != nil && isComparison(rhs) && tabledBoolTarget(fn, target)) {
			if b, ok := info.TypeOf(rhs).Underlying().(*types.Basic); ok && b.Info()&types.IsBoolean != 0 {
				named := boolForm(info, rhs, nil)
				polyAbstract = true
				polyAbsSeen = nil
				abs := boolForm(info, rhs, nil)
				polyAbsSeen = nil
				ra := boolForm(info, rhs, fdefs)
				polyAbstract = false
				res := boolForm(info, rhs, fdefs)
				t := tok.String() + " "
				out = append(out, formulaSite{fn, target, tok, pos, t + named, t + abs, types.ExprString(rhs), t + res, t + ra, "", append(assumptionsAt(info, fparents, curStmt, fdefs), assumptionsAt(info, fparents, curStmt, nil)...), "", "", ""})
				return
			}
		}
		if rhs != nil && !hasArith(rhs) && !callWithConstArg(info, rhs) && !inlinedArith(info, rhs) && !callWithArithLocal(info, rhs, fdefs) && !(strings.HasPrefix(target, "call:") && inlinedPipeline(info, rhs)) {
			// a bare value is a formula only for accumulators (x += v) — and where a reviewed accumulation into an
			// element or field (flags[vi] |= f, out.Rewards[vi] += r) is now a plain store of a variable: the store
			// overwrites what the accumulation kept
			if tok == token.ASSIGN {
				if !(strings.ContainsAny(target, "[.") && tabledAccumulation(fn, target)) {
					return
				}
				if tv, ok := info.Types[rhs]; ok && tv.Value != nil {
					return
				}
			}
		}
		named, ok := exprPoly(info, rhs, nil, nil, 0)
		if !ok {
			return
		}
		t1, named := accum(tok, lhs, named, nil, false)
		// the target of an accumulation written x = x + v is not looked through in the resolved forms
		var stop map[string]bool
		if id, ok := ast.Unparen(lhsOrNil(lhs)).(*ast.Ident); ok && tok == token.ASSIGN && t1 == token.ADD_ASSIGN {
			stop = map[string]bool{id.Name: true}
		}
		res := named
		resOK := false
		if rp, ok := exprPoly(info, rhs, fdefs, stop, 0); ok {
			res, resOK = rp, true
		}
		t2 := t1
		if resOK {
			t2, res = accum(tok, lhs, res, fdefs, false)
		}
		polyAbstract = true
		polyAbsSeen = nil
		abs, ok2 := exprPoly(info, rhs, nil, nil, 0)
		polyAbstract = false
		if !ok2 {
			return
		}
		t3, abs := accum(tok, lhs, abs, nil, true)
		polyAbstract = true
		polyAbsSeen = nil
		ra, ok3 := exprPoly(info, rhs, fdefs, stop, 0)
		polyAbstract = false
		t4 := t3
		if !ok3 {
			ra = abs
		} else {
			t4, ra = accum(tok, lhs, ra, fdefs, true)
		}
		site := formulaSite{fn: fn, target: target, tok: t1, pos: pos, named: t1.String() + " " + named.String(), abs: t3.String() + " " + abs.String(), text: types.ExprString(rhs), res: t2.String() + " " + res.String(), ra: t4.String() + " " + ra.String()}
		if strings.ContainsAny(target, ".[") || strings.HasPrefix(target, "call:") {
			site.guard = guardOf(info, fparents, guardNode, fdefs)
		}
		if len(fdefsNew) > 0 {
			savedReach := polyReach
			polyReach = nil // reaching definitions would read the reviewed function's own locals through as well
			pp, ok := exprPoly(info, rhs, fdefsNew, stop, 0)
			polyReach = savedReach
			if ok {
				if tp, pp := accum(tok, lhs, pp, fdefsNew, false); tp.String()+" "+pp.String() != site.named {
					site.pnamed = tp.String() + " " + pp.String()
				}
			}
		}
		if l := lhsOrNil(lhs); l != nil {
			polySelfObj, polySelfText = nil, ""
			if rp, ok := exprPoly(info, l, fdefs, nil, 0); ok {
				site.rtarget = rp.String()
			}
		}
		out = append(out, site)
	}
	// a predicate written as guards (`if !a { return false }; …; return c`) computes a && … && c: read as one formula
	wholeBool := false
	if fd.Type.Results != nil && len(fd.Type.Results.List) == 1 && len(fd.Type.Results.List[0].Names) <= 1 {
		if b, ok := info.TypeOf(fd.Type.Results.List[0].Type).Underlying().(*types.Basic); ok && b.Kind() == types.Bool {
			guards := false
			for _, st := range fd.Body.List {
				if _, ok := st.(*ast.IfStmt); ok {
					guards = true
				}
			}
			if guards {
				named := boolOfBody(info, fd.Body.List, fdefs, false, 0)
				polyAbstract = true
				polyAbsSeen = nil
				abs := boolOfBody(info, fd.Body.List, fdefs, false, 0)
				polyAbstract = false
				if named != "" && abs != "" && (strings.HasPrefix(named, "and(") || strings.HasPrefix(named, "or(")) {
					wholeBool = true
					out = append(out, formulaSite{fn, "return#0", token.ASSIGN, fd.Body.Pos(), "= " + named, "= " + abs, "guards and final return", "= " + named, "= " + abs, "", nil, "", "", ""})
				}
			}
		}
	}
	_ = fparents
	liftHelper := func(e ast.Expr, target string, lhs ast.Expr, pos token.Pos) {
		hc, ok := ast.Unparen(e).(*ast.CallExpr)
		if !ok || isConversion(info, hc) || len(polyInlining) >= 3 {
			return
		}
		hf := calleeFunc(info, hc)
		if hf == nil || hf.Exported() || hf.Pkg() != pk.Types {
			return
		}
		hd, ok := formulaDecls[pkgShort(pk.Types)+"."+hf.Name()]
		if !ok || hd.fd == fd || hd.fd.Body == nil || hd.fd.Recv != nil {
			return
		}
		if ih, single := polyInline[hf]; single && ih.defs == nil {
			return // read in place by exprPoly
		}
		saved := polyArgs
		merged := map[types.Object]ast.Expr{}
		for k, v := range saved {
			merged[k] = v
		}
		for k, v := range helperSubst(hd, hc) {
			merged[k] = v
		}
		polyArgs = merged
		// the helper's own locals are read through too (its single definitions and reaching definitions join the
		// caller's for the time of the reading)
		var addedDefs []types.Object
		for o, d := range singleDefs(info, hd.fd.Body) {
			if _, dup := fdefs[o]; !dup {
				fdefs[o] = d
				addedDefs = append(addedDefs, o)
			}
		}
		var addedReach []types.Object
		var addedParents []ast.Node
		if polyReach != nil {
			hr := reachingDefs(info, hd.fd.Body)
			for o, ds := range hr.defs {
				if _, dup := polyReach.defs[o]; !dup {
					polyReach.defs[o] = ds
					addedReach = append(addedReach, o)
				}
			}
			for n, p := range hr.parents {
				if _, dup := polyReach.parents[n]; !dup {
					polyReach.parents[n] = p
					addedParents = append(addedParents, n)
				}
			}
		}
		ast.Inspect(hd.fd.Body, func(m ast.Node) bool {
			if _, isLit := m.(*ast.FuncLit); isLit {
				return false
			}
			if r, ok := m.(*ast.ReturnStmt); ok && len(r.Results) == 1 && hasArith(r.Results[0]) {
				add(target, token.ASSIGN, lhs, r.Results[0], pos)
			}
			return true
		})
		for _, o := range addedDefs {
			delete(fdefs, o)
		}
		for _, o := range addedReach {
			delete(polyReach.defs, o)
		}
		for _, n := range addedParents {
			delete(polyReach.parents, n)
		}
		polyArgs = saved
	}
	cmpOperands := 0
	ast.Inspect(fd.Body, func(n ast.Node) bool {
		switch x := n.(type) {
		case *ast.AssignStmt:
			if len(x.Lhs) == len(x.Rhs) && len(x.Lhs) > 1 && (x.Tok == token.ASSIGN || x.Tok == token.DEFINE) {
				// a, b := e1, e2: each pair is an assignment of its own (the right sides are read before any store,
				// and the canonical forms are over the names, so a swap reads as `a = b`, `b = a`)
				curStmt = x
				guardNode = x
				for k := range x.Lhs {
					add(strings.ReplaceAll(exprText(info, x.Lhs[k]), " ", ""), x.Tok, x.Lhs[k], x.Rhs[k], x.Pos())
				}
				return true
			}
			if len(x.Lhs) != 1 || len(x.Rhs) != 1 {
				return true
			}
			curStmt = x
			guardNode = x
			// t = helper(args): the helper's returned formulas are the target's (parameters replaced by the arguments)
			liftHelper(x.Rhs[0], strings.ReplaceAll(exprText(info, x.Lhs[0]), " ", ""), x.Lhs[0], x.Pos())
			if hc, ok := ast.Unparen(x.Rhs[0]).(*ast.CallExpr); false && ok && !isConversion(info, hc) && len(polyInlining) < 3 {
				if hf := calleeFunc(info, hc); hf != nil && !hf.Exported() && hf.Pkg() == pk.Types {
					if hd, ok := formulaDecls[pkgShort(pk.Types)+"."+hf.Name()]; ok && hd.fd != fd && hd.fd.Body != nil && hd.fd.Recv == nil {
						if _, single := polyInline[hf]; !single {
							saved := polyArgs
							merged := map[types.Object]ast.Expr{}
							for k, v := range saved {
								merged[k] = v
							}
							for k, v := range helperSubst(hd, hc) {
								merged[k] = v
							}
							polyArgs = merged
							ast.Inspect(hd.fd.Body, func(m ast.Node) bool {
								if _, isLit := m.(*ast.FuncLit); isLit {
									return false
								}
								if r, ok := m.(*ast.ReturnStmt); ok && len(r.Results) == 1 && hasArith(r.Results[0]) {
									add(strings.ReplaceAll(exprText(info, x.Lhs[0]), " ", ""), token.ASSIGN, x.Lhs[0], r.Results[0], x.Pos())
								}
								return true
							})
							polyArgs = saved
						}
					}
				}
			}
			add(strings.ReplaceAll(exprText(info, x.Lhs[0]), " ", ""), x.Tok, x.Lhs[0], x.Rhs[0], x.Pos())
		case *ast.IncDecStmt:
			// x++ / x-- on a tabled accumulator is += 1 / -= 1
			if x.Tok == token.INC {
				addLit(&out, fn, strings.ReplaceAll(exprText(info, x.X), " ", ""), "1", x.Pos())
			} else {
				addLit(&out, fn, strings.ReplaceAll(exprText(info, x.X), " ", ""), "-1", x.Pos())
			}
		case *ast.CallExpr:
			// arithmetic handed straight to a call: buf writes, setters, helpers
			if isConversion(info, x) {
				return true
			}
			if fobj := callee(info, x); fobj != nil {
				guardNode = x
				for i, a := range x.Args {
					if hasArith(a) || inlinedArith(info, a) || inlinedPipeline(info, a) {
						add(fmt.Sprintf("call:%s#%d", fobj.Name(), i), token.ASSIGN, nil, a, x.Pos())
					}
					liftHelper(a, fmt.Sprintf("call:%s#%d", fobj.Name(), i), nil, x.Pos())
				}
			}
		case *ast.BinaryExpr:
			// a value computed inside a comparison (`if (b>>(p&7))&1 == 1`): it has no name, but a formula whose own
			// target is gone can still be found here
			switch x.Op {
			case token.EQL, token.NEQ, token.LSS, token.LEQ, token.GTR, token.GEQ:
				for _, o := range []ast.Expr{x.X, x.Y} {
					if hasArith(o) {
						cmpOperands++
						add(fmt.Sprintf("cmp#%d", cmpOperands), token.ASSIGN, nil, o, o.Pos())
					}
				}
			}
		case *ast.ReturnStmt:
			if wholeBool {
				return true // the function's boolean was read as a whole (guards and final return)
			}
			curStmt = x
			for i, r := range x.Results {
				if hasArith(r) || hasBoolOp(r) || ((callWithConstArg(info, r) || callWithArithLocal(info, r, fdefs)) && isErrorT(info.TypeOf(r))) {
					add(fmt.Sprintf("return#%d", i), token.ASSIGN, nil, r, x.Pos())
				}
			}
		}
		return true
	})
	// an assignment whose value a later assignment of the same variable reads in (x = a; x = min(x, m)) is spelled out by
	// that later one in the resolved forms: there it does not count on its own
	for i := range out {
		if out[i].via == "" && absorbedHere[out[i].pos] && !strings.ContainsAny(out[i].target, "#:") {
			out[i].res, out[i].ra = "~", "~"
		}
	}
	return out
}

// replaceIdentToken replaces every occurrence of the identifier path `from` that stands on its own (not part of a
// longer name or path) by `to`.
var tabledAccumMemo map[string]bool

// tabledAccumulation: the reviewed forms of (fn, target) are all accumulations (+=, |=, …).
func tabledAccumulation(fn, target string) bool {
	if tabledAccumMemo == nil {
		tabledAccumMemo = map[string]bool{}
		for _, e := range formulaTable {
			all := len(e.named) > 0
			for _, f := range e.named {
				if strings.HasPrefix(f, "= ") {
					all = false
				}
			}
			if all {
				tabledAccumMemo[e.fn+"\x00"+e.target] = true
			}
		}
	}
	return tabledAccumMemo[fn+"\x00"+target]
}

// identTokens: the identifier-like tokens of a canonical form (a.b.c counts as one token and as its head a).
func identTokens(form string) []string {
	isId := func(b byte) bool {
		return b == '_' || b == '.' || (b >= '0' && b <= '9') || (b >= 'a' && b <= 'z') || (b >= 'A' && b <= 'Z')
	}
	var out []string
	for i := 0; i < len(form); {
		if !isId(form[i]) || (form[i] >= '0' && form[i] <= '9') || form[i] == '.' {
			i++
			continue
		}
		j := i
		for j < len(form) && isId(form[j]) {
			j++
		}
		tok := form[i:j]
		if j < len(form) && form[j] == '(' {
			// a call: kept apart from a variable of the same name
			out = append(out, tok+"(")
			i = j
			continue
		}
		out = append(out, tok)
		if k := strings.Index(tok, "."); k > 0 {
			out = append(out, tok[:k])
		}
		i = j
	}
	return out
}

var formulaLocalsMemo = map[string]map[string]bool{}

// formulaLocalsOf: the names of the variables fn declares in its body today (not parameters, not results).
func formulaLocalsOf(fn string) map[string]bool {
	if m, ok := formulaLocalsMemo[fn]; ok {
		return m
	}
	m := map[string]bool{}
	if d, ok := formulaDecls[fn]; ok && d.fd != nil && d.fd.Body != nil {
		ast.Inspect(d.fd.Body, func(n ast.Node) bool {
			if id, ok := n.(*ast.Ident); ok {
				if v, ok := d.pk.TypesInfo.Defs[id].(*types.Var); ok && !v.IsField() {
					m[id.Name] = true
				}
			}
			return true
		})
	}
	formulaLocalsMemo[fn] = m
	return m
}

var (
	constStepRe = regexp.MustCompile(`^[+-]= \d+$`)
	constInitRe = regexp.MustCompile(`^= \d+$`)
)

var shiftedIndexRe = regexp.MustCompile(`\[(-?\d+\+([A-Za-z_][A-Za-z0-9_]*))\]`)

// uniformIndexShift: today's resolved forms are the reviewed ones once ONE index expression c+v (v a plain name, the
// same c everywhere) is read as v, and v occurs nowhere else — neither in the forms nor in the resolved targets, which
// must carry the same index. Returns "[c+v] for [v]", or "".
func uniformIndexShift(res, rtargets, want []string) string {
	if len(res) == 0 || len(res) != len(rtargets) || len(res) != len(notAbsorbed(want)) {
		return ""
	}
	var idx, v string
	all := append(append([]string{}, res...), rtargets...)
	for _, x := range all {
		for _, m := range shiftedIndexRe.FindAllStringSubmatch(x, -1) {
			if idx == "" {
				idx, v = m[1], m[2]
			} else if m[1] != idx {
				return ""
			}
		}
	}
	if idx == "" {
		return ""
	}
	var back []string
	for k, x := range all {
		if x == "" {
			return ""
		}
		y := strings.ReplaceAll(x, "["+idx+"]", "[\x00]")
		for _, t := range identTokens(y) {
			if t == v {
				return "" // the counter is used outside the shifted index as well
			}
		}
		if !strings.Contains(y, "[\x00]") && k >= len(res) {
			return "" // the place assigned to does not move with the value
		}
		if k < len(res) {
			back = append(back, strings.ReplaceAll(y, "[\x00]", "["+v+"]"))
		}
	}
	if !sameMultiset(back, notAbsorbed(want)) {
		return ""
	}
	return "[" + idx + "] for [" + v + "]"
}

var reviewedTokensMemo = map[string]map[string]bool{}

// reviewedTokens: every identifier that occurs in a reviewed form or as a reviewed target of fn.
func reviewedTokens(fn string) map[string]bool {
	if m, ok := reviewedTokensMemo[fn]; ok {
		return m
	}
	m := map[string]bool{}
	for _, e := range formulaTable {
		if e.fn != fn {
			continue
		}
		for _, t := range identTokens(e.target) {
			m[t] = true
		}
		for _, list := range [][]string{e.named, e.res, e.guard} {
			for _, x := range list {
				for _, t := range identTokens(x) {
					m[t] = true
				}
			}
		}
	}
	for _, e := range cmpTable {
		if e.fn != fn {
			continue
		}
		for _, t := range identTokens(e.res) {
			m[t] = true
		}
		for _, a := range e.atoms {
			for _, t := range identTokens(a) {
				m[t] = true
			}
		}
	}
	reviewedTokensMemo[fn] = m
	return m
}

// newVariableIn: a variable assigned in the function today (a key of own) that occurs in the forms and in no reviewed
// form of the function.
func newVariableIn(formsNow []string, own func(string) bool, reviewed map[string]bool, target string) string {
	for _, x := range formsNow {
		for _, t := range identTokens(x) {
			if t != target && own(t) && !reviewed[t] {
				return t
			}
		}
	}
	return ""
}

func replaceIdentToken(s, from, to string) string {
	isId := func(b byte) bool {
		return b == '_' || b == '.' || (b >= '0' && b <= '9') || (b >= 'a' && b <= 'z') || (b >= 'A' && b <= 'Z')
	}
	var out strings.Builder
	for i := 0; i < len(s); {
		if strings.HasPrefix(s[i:], from) && (i == 0 || !isId(s[i-1])) && (i+len(from) == len(s) || !(isId(s[i+len(from)]) || s[i+len(from)] == '(' || s[i+len(from)] == '[')) {
			out.WriteString(to)
			i += len(from)
			continue
		}
		out.WriteByte(s[i])
		i++
	}
	return out.String()
}

// resortMinMax puts the arguments of every min(…;…) / max(…;…) atom in s back in canonical (sorted) order.
func resortMinMax(s string) string {
	var out strings.Builder
	for i := 0; i < len(s); {
		if (strings.HasPrefix(s[i:], "min(") || strings.HasPrefix(s[i:], "max(")) && (i == 0 || !(s[i-1] == '_' || s[i-1] == '.' || (s[i-1] >= '0' && s[i-1] <= '9') || (s[i-1] >= 'a' && s[i-1] <= 'z') || (s[i-1] >= 'A' && s[i-1] <= 'Z'))) {
			depth, j := 0, i+3
			for ; j < len(s); j++ {
				if s[j] == '(' {
					depth++
				} else if s[j] == ')' {
					depth--
					if depth == 0 {
						break
					}
				}
			}
			if j < len(s) {
				inner := s[i+4 : j]
				var parts []string
				d, start := 0, 0
				for k := 0; k < len(inner); k++ {
					switch inner[k] {
					case '(':
						d++
					case ')':
						d--
					case ';':
						if d == 0 {
							parts = append(parts, resortMinMax(inner[start:k]))
							start = k + 1
						}
					}
				}
				parts = append(parts, resortMinMax(inner[start:]))
				sort.Strings(parts)
				out.WriteString(s[i : i+4])
				out.WriteString(strings.Join(parts, ";"))
				out.WriteByte(')')
				i = j + 1
				continue
			}
		}
		out.WriteByte(s[i])
		i++
	}
	return out.String()
}

func lhsOrNil(e ast.Expr) ast.Expr {
	if e == nil {
		return &ast.BadExpr{}
	}
	return e
}

func addLit(out *[]formulaSite, fn, target, v string, pos token.Pos) {
	v = "+= " + v
	*out = append(*out, formulaSite{fn, target, token.ADD_ASSIGN, pos, v, v, v, v, v, "", nil, "", "", ""})
}

var formulaHelpers = map[string][]string{}

func collectFormulas(p *Prog) map[string][]formulaSite {
	polyInline = inlinableFuncs(p)
	polyInlineNamed = true
	defer func() { polyInline, polyInlineNamed = nil, false }()
	out := map[string][]formulaSite{}
	formulaDecls = map[string]cmpDecl{}
	formulaHelpers = map[string][]string{}
	p.funcDecls(func(pk *packages.Package, fd *ast.FuncDecl) {
		if fd.Body == nil || !strings.Contains(pk.PkgPath, "/eth2/") {
			return
		}
		fn := pkgShort(pk.Types) + "." + funcName(fd)
		formulaDecls[fn] = cmpDecl{pk, fd}
		out[fn] = formulasIn(pk, fd, fn, nil, nil, nil, nil)
	})
	// a function also answers for the unexported helpers of its package that it calls directly, each read once per call
	// site with its parameters replaced by the arguments (sites marked with the helper's name in `via`)
	direct, _ := helperClosure(p)
	own := map[string][]formulaSite{}
	for fn, ss := range out {
		own[fn] = ss
	}
	for fn, calls := range direct {
		caller, ok := formulaDecls[fn]
		if !ok {
			continue
		}
		var callerRecv types.Object
		if fd := caller.fd; fd.Recv != nil && len(fd.Recv.List) == 1 && len(fd.Recv.List[0].Names) == 1 {
			callerRecv = caller.pk.TypesInfo.Defs[fd.Recv.List[0].Names[0]]
		}
		callerDefs := withRangeValues(caller.pk.TypesInfo, caller.fd.Body, singleDefs(caller.pk.TypesInfo, caller.fd.Body))
		callerReach := reachingDefs(caller.pk.TypesInfo, caller.fd.Body)
		for _, hc := range calls {
			hd, ok := formulaDecls[hc.h]
			if !ok {
				continue
			}
			formulaHelpers[fn] = append(formulaHelpers[fn], hc.h)
			subst := helperSubst(hd, hc.call)
			recvArg(hd, hc.call, callerRecv, caller.pk.TypesInfo, subst)
			for _, s := range formulasIn(hd.pk, hd.fd, hc.h, subst, callerRecv, callerDefs, callerReach) {
				s.via = hc.h
				s.fn = fn
				out[fn] = append(out[fn], s)
			}
		}
		_ = own
	}
	return out
}

// helperSubst: parameter -> argument of one call of an unexported helper (parameters the helper re-assigns, and
// arguments that are literals of functions or composites, keep the parameter's name).
func helperSubst(hd cmpDecl, call *ast.CallExpr) map[types.Object]ast.Expr {
	subst := map[types.Object]ast.Expr{}
	if sig, ok := hd.pk.TypesInfo.Defs[hd.fd.Name].Type().(*types.Signature); ok && sig.Variadic() {
		return subst
	}
	i := 0
	for _, f := range hd.fd.Type.Params.List {
		for _, nm := range f.Names {
			if i < len(call.Args) {
				if o := hd.pk.TypesInfo.Defs[nm]; o != nil && substitutable(call.Args[i]) && !assignedIn(hd.pk.TypesInfo, hd.fd.Body, o) {
					subst[o] = call.Args[i]
				}
			}
			i++
		}
	}
	return subst
}

func init() {
	if len(os.Args) > 1 && os.Args[1] == "formulas" {
		p, err := load(loadOpts{repo: dumpRepo()})
		if err != nil {
			fmt.Println(err)
			os.Exit(2)
		}
		all := collectFormulas(p)
		for _, fn := range sortedKeys(all) {
			if len(os.Args) > 2 && !strings.Contains(fn, os.Args[2]) {
				continue
			}
			for _, s := range all[fn] {
				if s.via != "" {
					continue
				}
				fmt.Printf("%s\t%s\t%s\t%s\t%s\t%s\t%s\t%s\t%s\t%s\t%s\n", s.fn, s.target, s.tok, s.named, s.abs, s.text, s.res, s.ra, s.guard, s.rtarget, s.pnamed)
			}
		}
		os.Exit(0)
	}
}

// formulaSpec: the arithmetic assigned to one target in one function (all assignments to it, as a multiset).
type formulaSpec struct {
	fn, target string
	named      []string // "<tok> <polynomial>" with operand names
	abs        []string // the same with locals/parameters named by type
	res        []string // the named form with single-definition locals substituted
	ra         []string // the type-named form with locals substituted
	guard      []string // per form: the conditions under which the update runs ("" = none recorded), see formulaSite.guard
	spec       string
}

func init() {
	register(&Rule{Name: "formula.spec", Floor: 40,
		Doc: "each tabled assignment of the spec's arithmetic (rewards, penalties, slashing, hysteresis, churn, committee slicing, subnets, withdrawals sweep, timing) is present in its function with exactly the reviewed formula: both sides are put in canonical polynomial form over the operands (commutative/associative rewriting, constant folding, conversions stripped), integer division and modulo kept as opaque ordered atoms (so a*b/c and a/c*b differ). A match on operand names, or failing that on the type-named form (renamed locals), discharges the entry; a target that still exists but carries another formula is a violation; a target that cannot be found is undecided, never a pass",
		Run: ruleFormulaSpec})
}

func sameMultiset(a, b []string) bool {
	if len(a) != len(b) {
		return false
	}
	cnt := map[string]int{}
	for _, x := range a {
		cnt[x]++
	}
	for _, x := range b {
		cnt[x]--
	}
	for _, n := range cnt {
		if n != 0 {
			return false
		}
	}
	return true
}

func notAbsorbed(a []string) []string {
	var out []string
	for _, s := range a {
		if s != "~" {
			out = append(out, s)
		}
	}
	return out
}

func ruleFormulaSpec(c *Ctx) {
	all := collectFormulas(c.P)
	type verdict struct {
		status string // ok | bad | missing
		how    string // named | res | abs | ra | moved
		pos    token.Pos
		msg    string
	}
	verdicts := make([]verdict, len(formulaTable))
	// forms of one target among a list of sites
	type forms struct {
		guards                     []string
		named, abs, res, ra, texts []string
		rtargets, pnamed           []string
		pos                        token.Pos
		via, hasPnamed             bool
		assume                     []string
	}
	gather := func(sites []formulaSite, keep func(formulaSite) bool) map[string]*forms {
		m := map[string]*forms{}
		for _, s := range sites {
			if !keep(s) {
				continue
			}
			f := m[s.target]
			if f == nil {
				f = &forms{pos: s.pos}
				m[s.target] = f
			}
			f.named = append(f.named, s.named)
			f.abs = append(f.abs, s.abs)
			f.res = append(f.res, s.res)
			f.ra = append(f.ra, s.ra)
			f.texts = append(f.texts, s.text)
			f.guards = append(f.guards, s.guard)
			f.rtargets = append(f.rtargets, s.rtarget)
			if s.pnamed != "" {
				f.pnamed = append(f.pnamed, s.pnamed)
				f.hasPnamed = true
			} else {
				f.pnamed = append(f.pnamed, s.named)
			}
			f.assume = append(f.assume, s.assume...)
			if s.via != "" {
				f.via = true
			}
		}
		return m
	}
	// same: multiset equality; for sites read through a helper (once per call site) equality of the sets
	same := func(got, want []string, via bool) bool {
		got, want = notAbsorbed(got), notAbsorbed(want)
		if len(want) == 0 {
			return false
		}
		if sameMultiset(got, want) {
			return true
		}
		if !via {
			return false
		}
		a, b := map[string]bool{}, map[string]bool{}
		for _, x := range got {
			a[x] = true
		}
		for _, x := range want {
			b[x] = true
		}
		if len(a) != len(b) {
			return false
		}
		for x := range a {
			if !b[x] {
				return false
			}
		}
		return true
	}
	conj := func(form string) (string, []string) {
		// "= and(a; b)" -> ("=", [a b]); "= x" -> ("=", [x])
		i := strings.Index(form, " ")
		if i < 0 {
			return "", nil
		}
		tok, body := form[:i], form[i+1:]
		if strings.HasPrefix(body, "and(") && strings.HasSuffix(body, ")") && balancedTop(body[4:len(body)-1]) {
			return tok, splitTop(body[4 : len(body)-1])
		}
		return tok, []string{body}
	}
	// underAssumptions: one boolean assignment whose conjuncts are all reviewed ones, the reviewed conjuncts it leaves
	// out being known to hold where it stands (a guard above it already returned otherwise)
	underAssumptions := func(e formulaSpec, f *forms) bool {
		if len(e.res) != 1 || len(f.res) != 1 || len(f.assume) == 0 {
			return false
		}
		t1, want := conj(e.res[0])
		t2, got := conj(f.res[0])
		if t1 != t2 || len(want) < 2 || len(got) == 0 {
			return false
		}
		ws, as := map[string]bool{}, map[string]bool{}
		for _, w := range want {
			ws[w] = true
		}
		for _, a := range f.assume {
			as[a] = true
		}
		gs := map[string]bool{}
		for _, g := range got {
			if !ws[g] {
				return false
			}
			gs[g] = true
		}
		for _, w := range want {
			if !gs[w] && !as[w] {
				return false
			}
		}
		return true
	}
	match := func(e formulaSpec, f *forms) (string, []string) {
		if underAssumptions(e, f) {
			return "res", nil
		}
		switch {
		case same(f.named, e.named, f.via):
			// (one-line helpers of the package are read in place in every form: a helper whose body changed changes
			// the formulas of its callers)
			return "named", nil
		case f.hasPnamed && same(f.pnamed, e.named, f.via):
			return "named", nil
		case same(f.res, e.res, f.via):
			return "res", nil
		case same(f.abs, e.abs, f.via):
			if sw := stillDeclared(e.fn, e.named, append(append([]string{}, f.named...), f.res...)); len(sw) > 0 {
				return "", sw
			}
			return "abs", nil
		case same(f.ra, e.ra, f.via):
			if sw := stillDeclared(e.fn, e.named, append(append([]string{}, f.named...), f.res...)); len(sw) > 0 {
				return "", sw
			}
			return "ra", nil
		}
		return "", nil
	}
	guardPoolWant := map[string]map[string]bool{}
	for _, e := range formulaTable {
		for _, g := range e.guard {
			if guardPoolWant[e.fn] == nil {
				guardPoolWant[e.fn] = map[string]bool{}
			}
			guardAtomsInto(g, guardPoolWant[e.fn])
		}
	}
	gotPools := map[string]map[string]bool{}
	guardPoolGot := func(fn string) map[string]bool {
		if p, ok := gotPools[fn]; ok {
			return p
		}
		p := map[string]bool{}
		for _, s := range all[fn] {
			guardAtomsInto(s.guard, p)
		}
		gotPools[fn] = p
		return p
	}
	for i, e := range formulaTable {
		sites, ok := all[e.fn]
		if !ok {
			verdicts[i] = verdict{status: "missing", msg: fmt.Sprintf("function %s not found (or has no arithmetic)", e.fn)}
			continue
		}
		if e.target == "err" {
			// an error variable is a shared scratch target (err = a(); … err = b()): which calls are assigned to it says
			// nothing; each reviewed call formula must be made somewhere in the function or its helpers, under any target
			allFound, changed := true, ""
			var at token.Pos
			for k := range e.named {
				found := false
				callName := e.named[k]
				if j := strings.Index(callName, "("); j > 0 {
					callName = callName[:j+1]
				}
				for _, sv := range sites {
					for _, cand := range []string{sv.named, sv.res} {
						if cand == e.named[k] || (k < len(e.res) && e.res[k] != "~" && cand == e.res[k]) {
							found = true
							at = sv.pos
						}
					}
					// renamed locals: the type-named forms
					if (k < len(e.abs) && sv.abs == e.abs[k]) || (k < len(e.ra) && e.ra[k] != "~" && sv.ra == e.ra[k]) {
						found = true
						at = sv.pos
					}
				}
				if !found {
					allFound = false
					for _, sv := range sites {
						if strings.HasPrefix(sv.named, callName) && strings.HasSuffix(callName, "(") {
							changed = sv.named
							at = sv.pos
						}
					}
				}
			}
			switch {
			case allFound:
				verdicts[i] = verdict{"ok", "named", at, e.spec}
			case changed != "" && newVariableIn([]string{changed}, func(t string) bool {
				if strings.HasSuffix(t, "(") {
					return false
				}
				return formulaLocalsOf(e.fn)[t]
			}, reviewedTokens(e.fn), e.target) != "":
				// the call is made with a value built from a variable the reviewed function did not have: rebuilt, not
				// comparable (see newVariableIn)
				verdicts[i] = verdict{status: "missing", how: "newvar", pos: at, msg: fmt.Sprintf("%s makes the call {%s} with a variable the reviewed function did not have; the reviewed one is {%s} (%s)", e.fn, changed, strings.Join(e.named, " ; "), e.spec)}
			case changed != "":
				verdicts[i] = verdict{"bad", "", at, fmt.Sprintf("%s makes the call {%s} where the reviewed one is {%s} — spec: %s", e.fn, changed, strings.Join(e.named, " ; "), e.spec)}
			default:
				verdicts[i] = verdict{status: "missing", pos: at, msg: fmt.Sprintf("the reviewed call(s) {%s} are not made in %s or an unexported helper it calls (%s)", strings.Join(e.named, " ; "), e.fn, e.spec)}
			}
			continue
		}
		var pos0 token.Pos
		if len(sites) > 0 {
			pos0 = sites[0].pos
		}
		own := gather(sites, func(s formulaSite) bool { return s.via == "" })
		viaAll := gather(sites, func(s formulaSite) bool { return s.via != "" })
		note := map[string]string{"named": "", "res": " (a sub-expression was moved into or out of a local)", "abs": " (operands renamed)", "ra": " (operands renamed, a sub-expression moved into or out of a local)"}
		if f := own[e.target]; f != nil {
			how, sw := match(e, f)
			switch {
			case how != "":
				verdicts[i] = verdict{"ok", how, f.pos, e.spec + note[how]}
				// the update is the reviewed one; does it still run under the reviewed conditions? The two guards are
				// compared as propositional formulas over their resolved leaves (guardprop.go), and only when the leaves
				// line up (`&& !leak` merged into the branch above, so that the else-branch now also takes the leak
				// case, is decided; a guard with a renamed operand or a new helper predicate is not).
				if len(e.guard) == len(e.named) && len(f.guards) == len(f.named) {
					for k := range e.named {
						for j := range f.named {
							if f.named[j] != e.named[k] && !(k < len(e.res) && j < len(f.res) && f.res[j] == e.res[k]) {
								continue
							}
							if r, why := guardCompare(e.guard[k], f.guards[j], guardPoolWant[e.fn], guardPoolGot(e.fn)); r == "differ" {
								verdicts[i] = verdict{"bad", "guard", f.pos, fmt.Sprintf("%s updates %s with the reviewed formula, but under other conditions than reviewed: it %s (now {%s}, reviewed {%s}) — spec: %s", e.fn, e.target, why, f.guards[j], e.guard[k], e.spec)}
							}
							break
						}
					}
				}
				continue
			case sw != nil:
				verdicts[i] = verdict{"bad", "", f.pos, fmt.Sprintf("%s computes %s as {%s}: the shape is the reviewed one but it no longer uses %v, which still exist(s) in the function — another value of the same type was put in its place (reviewed: {%s}; spec: %s)", e.fn, e.target, strings.Join(f.texts, " ; "), sw, strings.Join(e.named, " ; "), e.spec)}
				continue
			}
			// the target is there with another formula: unless the reviewed one now lives in a helper under the same
			// name, that is a violation
			if hf := viaAll[e.target]; hf != nil {
				if how, _ := match(e, hf); how != "" {
					verdicts[i] = verdict{"ok", how, hf.pos, e.spec + " (computed in a helper)" + note[how]}
					continue
				}
			}
			// the function merely hands the work to an unexported helper of the package (`return helper(args)`) whose
			// own formulas did not match either: what the helper computes is not related to the reviewed formula by
			// this rule — undecided, not a different formula
			delegates := len(f.named) > 0
			for _, nm := range f.named {
				body := strings.TrimPrefix(nm, "= ")
				j := strings.Index(body, "(")
				if j <= 0 || !strings.HasSuffix(body, ")") {
					delegates = false
					break
				}
				name := body[:j]
				pkgName := e.fn
				if k := strings.Index(pkgName, "."); k >= 0 {
					pkgName = pkgName[:k]
				}
				if _, isHelper := formulaDecls[pkgName+"."+name]; !isHelper || !(name[0] >= 'a' && name[0] <= 'z') {
					// (methods are keyed Type.name)
					found := false
					for k := range formulaDecls {
						if strings.HasPrefix(k, pkgName+".") && strings.HasSuffix(k, "."+name) && name[0] >= 'a' && name[0] <= 'z' {
							found = true
						}
					}
					if !found {
						delegates = false
						break
					}
				}
			}
			// … unless the helper was read in place: the resolved form then no longer mentions it, and what it says is
			// what the function computes
			if delegates && len(f.res) == len(f.named) {
				readThrough := true
				for k, nm := range f.named {
					body := strings.TrimPrefix(nm, "= ")
					if j := strings.Index(body, "("); j > 0 && strings.Contains(f.res[k], body[:j+1]) {
						readThrough = false
					}
				}
				if readThrough {
					delegates = false
				}
			}
			if delegates {
				verdicts[i] = verdict{status: "missing", pos: f.pos, msg: fmt.Sprintf("%s hands %s to an unexported helper whose formulas this rule cannot relate to the reviewed one {%s} (%s)", e.fn, e.target, strings.Join(e.named, " ; "), e.spec)}
				continue
			}
			// the variable was split in two: what the reviewed formulas did to one variable step by step (t += x in a
			// loop; t = max(t, m) after it) is done to a first variable and carried on in the target (a += x; t :=
			// max(a, m)). Read with the first variable standing where the target stood (§self), the two together are
			// the reviewed formulas.
			{
				split := false
				for _, other := range sortedKeys(own) {
					if other == e.target || strings.ContainsAny(other, "#:.[") || split {
						continue
					}
					of := own[other]
					sub := func(list []string) []string {
						var out []string
						for _, x := range list {
							out = append(out, resortMinMax(replaceIdentToken(x, other, "§self")))
						}
						return out
					}
					for _, pair := range [][3][]string{{f.res, of.res, e.res}, {f.named, of.named, e.named}} {
						if len(pair[2]) < 2 {
							continue
						}
						joined := append(sub(pair[0]), pair[1]...)
						uses := false
						for _, x := range pair[0] {
							if resortMinMax(replaceIdentToken(x, other, "§self")) != x {
								uses = true
							}
						}
						if uses && sameMultiset(notAbsorbed(joined), notAbsorbed(pair[2])) {
							split = true
							verdicts[i] = verdict{"ok", "res", f.pos, e.spec + " (the steps are spread over " + other + " and " + e.target + ")"}
						}
					}
				}
				if split {
					continue
				}
			}
			// the target is now computed from a variable the reviewed function did not have (a counting loop's `step`
			// from which the round number is derived): the function was rebuilt around another quantity, and the
			// reviewed formula says nothing about that — undecided, not a different formula. Judged on the resolved form: a
			// new single-definition local is read through and does not count
			if nv := newVariableIn(f.res, func(t string) bool {
				// the result of an unexported function of the package that the reviewed code did not call
				if strings.HasSuffix(t, "(") {
					t = strings.TrimSuffix(t, "(")
					if t != "" && t[0] >= 'a' && t[0] <= 'z' && !strings.Contains(t, ".") {
						if _, isFn := formulaDecls[e.fn[:strings.Index(e.fn, ".")+1]+t]; isFn {
							return true
						}
					}
					return false
				}
				return own[t] != nil || formulaLocalsOf(e.fn)[t]
			}, reviewedTokens(e.fn), e.target); nv != "" {
				verdicts[i] = verdict{status: "missing", how: "newvar", pos: f.pos, msg: fmt.Sprintf("%s computes %s as {%s} from %s, a variable (or helper result) the reviewed function did not have; the reviewed formula is {%s} (%s)", e.fn, e.target, strings.Join(f.named, " ; "), nv, strings.Join(e.named, " ; "), e.spec)}
				continue
			}
			// … or the reviewed steps the target no longer carries are carried by such a new variable (the start value
			// of the inverse direction kept in `lastRound` and swapped in): same conclusion
			{
				rev := reviewedTokens(e.fn)
				have := map[string]bool{}
				for _, x := range f.named {
					have[x] = true
				}
				allCarried, carrier := true, ""
				nMissing := 0
				for _, x := range e.named {
					if have[x] {
						continue
					}
					nMissing++
					carried := false
					for _, other := range sortedKeys(own) {
						if other == e.target || rev[other] || strings.ContainsAny(other, "#:.[") {
							continue
						}
						for _, y := range own[other].named {
							if y == x {
								carried, carrier = true, other
							}
						}
					}
					if !carried {
						allCarried = false
					}
				}
				extra := false
				for _, x := range f.named {
					found := false
					for _, y := range e.named {
						if x == y {
							found = true
						}
					}
					if !found {
						extra = true
					}
				}
				if nMissing > 0 && allCarried && !extra {
					verdicts[i] = verdict{status: "missing", how: "newvar", pos: f.pos, msg: fmt.Sprintf("%s computes %s as {%s}; the reviewed step(s) it no longer carries are now made on %s, a variable the reviewed function did not have; the reviewed formula is {%s} (%s)", e.fn, e.target, strings.Join(f.named, " ; "), carrier, strings.Join(e.named, " ; "), e.spec)}
					continue
				}
			}
			// … or the whole reviewed formula, locals read through, is what another place of the function computes today
			// (the clamps of `c` moved into `return max(1, min(c, MAX))`): the formula is still there. Only a place
			// that is not itself a reviewed target counts: two reviewed targets with one formula must not cover for
			// each other
			{
				rev := map[string]bool{}
				for _, o := range formulaTable {
					if o.fn == e.fn {
						rev[o.target] = true
					}
				}
				movedTo := ""
				for _, t := range sortedKeys(own) {
					if t == e.target || rev[t] || movedTo != "" {
						continue
					}
					g := own[t]
					if (len(notAbsorbed(e.res)) > 0 && same(g.res, e.res, false)) || (len(notAbsorbed(e.ra)) > 0 && same(g.ra, e.ra, false) && same(g.res, e.res, false)) {
						movedTo = t
					}
				}
				if movedTo != "" {
					verdicts[i] = verdict{"ok", "resmoved", own[movedTo].pos, fmt.Sprintf("same formula once locals are read through, now completed at %s: %s", movedTo, e.spec)}
					continue
				}
			}
			// … or target and value are the reviewed ones with a loop counter shifted by a constant in every index
			// (`for i := n; i > 0; i--` over nodes[i-1] and deltas[i-1] for `i := n-1; i >= 0` over nodes[i] and
			// deltas[i]): the same element-to-element formula; whether the loop's range moved with it is not read
			// here — undecided. One index shifted and the other not (nodes[i] += deltas[i-1]) is not this.
			if sh := uniformIndexShift(f.res, f.rtargets, e.res); sh != "" {
				verdicts[i] = verdict{status: "missing", how: "newvar", pos: f.pos, msg: fmt.Sprintf("%s computes %s as {%s}: the reviewed formula {%s} with every index written %s; which elements that names depends on the range of the loop, which this rule does not read (%s)", e.fn, e.target, strings.Join(f.res, " ; "), strings.Join(e.res, " ; "), sh, e.spec)}
				continue
			}
			// … or the target has become an induction variable (a counter stepped by a constant where the reviewed code
			// wrote the closed form `= a*n + b`): a constant step carries nothing of the formula, the value follows from
			// the loops around it, which this comparison does not read — undecided
			{
				steps, other := 0, false
				for _, x := range f.named {
					switch {
					case constStepRe.MatchString(x):
						steps++
					case constInitRe.MatchString(x):
					default:
						other = true
					}
				}
				reviewedSteps := false
				for _, x := range e.named {
					if strings.HasPrefix(x, "+= ") || strings.HasPrefix(x, "-= ") {
						reviewedSteps = true
					}
				}
				if steps > 0 && !other && !reviewedSteps {
					verdicts[i] = verdict{status: "missing", how: "newvar", pos: f.pos, msg: fmt.Sprintf("%s now counts %s up by a constant {%s} where the reviewed code computed it in closed form {%s}: its value follows from the loops around it (%s)", e.fn, e.target, strings.Join(f.named, " ; "), strings.Join(e.named, " ; "), e.spec)}
					continue
				}
			}
			// or under another name in the function or a helper of it (the local was re-purposed)
			verdicts[i] = verdict{"bad", "", f.pos, fmt.Sprintf("%s computes %s as {%s}; in canonical form that is {%s}, the reviewed formula is {%s} — spec: %s", e.fn, e.target, strings.Join(f.texts, " ; "), strings.Join(f.named, " ; "), strings.Join(e.named, " ; "), e.spec)}
			continue
		}
		// no assignment to the target in the function itself: the same formula(s) under the same or another name, in
		// the function or in an unexported helper it calls
		found := false
		for _, m := range []map[string]*forms{viaAll, own} {
			if f := m[e.target]; f != nil && !found {
				if how, _ := match(e, f); how != "" {
					verdicts[i] = verdict{"ok", how, f.pos, e.spec + " (computed in a helper)" + note[how]}
					found = true
				}
			}
		}
		for _, m := range []map[string]*forms{own, viaAll} {
			for _, t := range sortedKeys(m) {
				if found {
					break
				}
				f := m[t]
				if same(f.named, e.named, true) || same(f.res, e.res, true) || same(f.abs, e.abs, true) || same(f.ra, e.ra, true) {
					verdicts[i] = verdict{"ok", "moved", f.pos, fmt.Sprintf("same formula, now computed as %s: %s", t, e.spec)}
					found = true
				}
			}
		}
		if !found {
			verdicts[i] = verdict{"missing", "", pos0, fmt.Sprintf("no assignment to %s in %s and no other target (in it or in an unexported helper it calls) carries its formula (%s)", e.target, e.fn, e.spec)}
		}
	}
	// a formula split over places: every reviewed assignment is found — under the target, or as the value handed to a
	// call / returned by an unexported helper (`= t + rest` read as the accumulation `+= rest` on t) — and the target
	// itself carries nothing that was not reviewed
	reduceBy := func(form, t string) string {
		if !strings.HasPrefix(form, "= ") {
			return ""
		}
		terms := strings.Split(form[2:], " + ")
		var rest []string
		hit := false
		for _, tm := range terms {
			if tm == t && !hit {
				hit = true
				continue
			}
			rest = append(rest, tm)
		}
		if !hit {
			return ""
		}
		if len(rest) == 0 {
			return "+= 0"
		}
		// what is left may still mention the target (t - min(t, d)): there it is the previous value
		return "+= " + resortMinMax(replaceIdentToken(strings.Join(rest, " + "), t, "§self"))
	}
	for i, e := range formulaTable {
		if verdicts[i].status == "ok" || verdicts[i].how == "guard" || strings.ContainsAny(e.target, "#:") {
			continue
		}
		sites := all[e.fn]
		if len(sites) == 0 {
			continue
		}
		usedSite := map[int]bool{}
		allFound := true
		for k := range e.named {
			found := false
			for si, sv := range sites {
				if usedSite[si] {
					continue
				}
				// compared in resolved form (locals and one-line helpers read through): the spelling alone can hide a
				// helper whose body changed
				cands := []string{sv.named, sv.res}
				if sv.target != e.target {
					cands = append(cands, reduceBy(sv.named, e.target), reduceBy(sv.res, e.target))
				}
				for _, cnd := range cands {
					if cnd != "" && cnd != "~" && (cnd == e.named[k] || (k < len(e.res) && cnd == e.res[k])) {
						found = true
					}
				}
				if found {
					usedSite[si] = true
					break
				}
			}
			if !found {
				allFound = false
				break
			}
		}
		if !allFound {
			continue
		}
		extra := false
		for si, sv := range sites {
			if sv.target == e.target && sv.via == "" && !usedSite[si] {
				extra = true
			}
		}
		if !extra {
			verdicts[i] = verdict{"ok", "split", verdicts[i].pos, e.spec + " (part of it is computed where the value is handed on: a call argument or an unexported helper)"}
		}
	}
	// a tabled local that was inlined: its formula is then part of the entries that used it; when each of those is
	// found in its resolved form (which spells the local out), the local's own entry is discharged with them
	tok := func(s string) map[string]bool {
		m := map[string]bool{}
		for _, t := range identTokRe.FindAllString(s, -1) {
			m[t] = true
		}
		return m
	}
	for i, e := range formulaTable {
		if verdicts[i].status != "missing" || verdicts[i].how == "newvar" || e.target == "err" || strings.ContainsAny(e.target, ":#.[") {
			continue
		}
		users, allRes := 0, true
		for j, u := range formulaTable {
			if j == i || u.fn != e.fn {
				continue
			}
			if !tok(strings.Join(u.named, " "))[e.target] {
				continue
			}
			users++
			if verdicts[j].status != "ok" || (verdicts[j].how != "res" && verdicts[j].how != "ra" && verdicts[j].how != "resmoved") {
				allRes = false
			}
		}
		if users > 0 && allRes {
			verdicts[i] = verdict{"ok", "inlined", verdicts[i].pos, fmt.Sprintf("%s is no longer a local of %s; the %d reviewed formula(s) that used it are found with it spelled out: %s", e.target, e.fn, users, e.spec)}
		}
	}
	// a reviewed assignment that is gone while its target is still a variable of the function was REMOVED (the value the
	// variable then carries on is the one from before: a stale count, an unrounded balance), not moved or renamed
	for i, e := range formulaTable {
		if verdicts[i].status != "missing" || verdicts[i].how == "newvar" || e.target == "err" || strings.ContainsAny(e.target, ":#.[") {
			continue
		}
		if _, ok := all[e.fn]; !ok {
			continue
		}
		// not dropped but folded into one expression elsewhere: some other formula of the function reads the target and
		// mentions every operand of the reviewed steps (append(out, clip(bal+reward, penalty)) for bal += reward; bal -=
		// min(penalty, bal)). How the steps compose there is not decided by this rule.
		{
			want := map[string]bool{}
			for _, f := range e.res {
				for t := range tok(f) {
					if t != "self" && t != "min" && t != "max" && t != "mod" && t != "shr" && t != "trunc32" {
						want[t] = true
					}
				}
			}
			folded := false
			for _, sv := range all[e.fn] {
				if sv.target == e.target {
					continue
				}
				have := tok(sv.res)
				if !tok(sv.named)[e.target] {
					continue
				}
				allIn := len(want) > 0
				for t := range want {
					if !have[t] {
						allIn = false
					}
				}
				if allIn {
					folded = true
				}
			}
			if folded {
				verdicts[i].msg = fmt.Sprintf("%s no longer assigns {%s} to %s step by step; another formula of the function reads %s and all the operands of those steps, how they compose there is not decided (%s)", e.fn, strings.Join(e.named, " ; "), e.target, e.target, e.spec)
				continue
			}
		}
		// the variable is now what an unexported function of the package hands back (n, err := expectedCount(…)): the
		// formula went there with it, in a form this rule did not find — undecided, not dropped
		if d, ok := formulaDecls[e.fn]; ok && d.fd != nil && d.fd.Body != nil {
			fromHelper := false
			ast.Inspect(d.fd.Body, func(n ast.Node) bool {
				as, ok := n.(*ast.AssignStmt)
				if !ok || len(as.Rhs) != 1 {
					return true
				}
				call, ok := ast.Unparen(as.Rhs[0]).(*ast.CallExpr)
				if !ok {
					return true
				}
				g := calleeFunc(d.pk.TypesInfo, call)
				if g == nil || g.Exported() || g.Pkg() != d.pk.Types {
					return true
				}
				for _, l := range as.Lhs {
					if id, ok := ast.Unparen(l).(*ast.Ident); ok && id.Name == e.target {
						fromHelper = true
					}
				}
				return true
			})
			if fromHelper {
				verdicts[i].msg = fmt.Sprintf("%s no longer assigns {%s} to %s itself: %s is now what an unexported helper returns, whose formulas this rule did not relate to the reviewed one (%s)", e.fn, strings.Join(e.named, " ; "), e.target, e.target, e.spec)
				continue
			}
		}
		// … or the variable is handed to an unexported function of the package that the reviewed code did not call
		// (append(out, subClipped(bal+reward, penalty))): the steps went there as well — undecided
		if d, ok := formulaDecls[e.fn]; ok && d.fd != nil && d.fd.Body != nil {
			rev := reviewedTokens(e.fn)
			toHelper := ""
			ast.Inspect(d.fd.Body, func(n ast.Node) bool {
				call, ok := n.(*ast.CallExpr)
				if !ok || toHelper != "" {
					return toHelper == ""
				}
				g := calleeFunc(d.pk.TypesInfo, call)
				if g == nil || g.Exported() || g.Pkg() != d.pk.Types || rev[g.Name()+"("] {
					return true
				}
				for _, a := range call.Args {
					ast.Inspect(a, func(m ast.Node) bool {
						if id, ok := m.(*ast.Ident); ok && id.Name == e.target {
							if _, isVar := d.pk.TypesInfo.Uses[id].(*types.Var); isVar {
								toHelper = g.Name()
							}
						}
						return toHelper == ""
					})
				}
				return true
			})
			if toHelper != "" {
				verdicts[i].msg = fmt.Sprintf("%s no longer assigns {%s} to %s itself: %s is now handed to %s, an unexported helper the reviewed function did not call, whose formulas this rule did not relate to the reviewed one (%s)", e.fn, strings.Join(e.named, " ; "), e.target, e.target, toHelper, e.spec)
				continue
			}
		}
		if sw := stillDeclared(e.fn, []string{e.target}, nil); len(sw) > 0 {
			verdicts[i] = verdict{"bad", "", verdicts[i].pos, fmt.Sprintf("%s no longer assigns {%s} to %s, although %s is still a variable of the function and nothing else carries that formula: the update was dropped — spec: %s", e.fn, strings.Join(e.named, " ; "), e.target, e.target, e.spec)}
		}
	}
	for i, e := range formulaTable {
		key := e.fn + ":" + e.target
		v := verdicts[i]
		switch v.status {
		case "ok":
			c.ok(key, v.pos, "%s", v.msg)
		case "bad":
			c.bad(key, v.pos, "%s", v.msg)
		default:
			c.unm(key, v.pos, "%s", v.msg)
		}
	}
}

// assumptionsAt: the conditions that hold whenever control reaches statement n, read off the structure: n stands after
// an `if C { …leaves… }` of an enclosing block (not C holds), inside the then-branch of `if C` (C holds) or inside its
// else-branch (not C). Each is given as the conjuncts of its resolved negation normal form.
func assumptionsAt(info *types.Info, parents map[ast.Node]ast.Node, n ast.Node, defs map[types.Object]localDef) []string {
	if n == nil {
		return nil
	}
	var out []string
	addC := func(cond ast.Expr, neg bool) {
		f := boolNNF(info, cond, defs, neg, 0)
		if strings.HasPrefix(f, "and(") && strings.HasSuffix(f, ")") {
			out = append(out, splitTop(f[4:len(f)-1])...)
		} else {
			out = append(out, f)
		}
	}
	var child ast.Node = n
	for p := parents[n]; p != nil; child, p = p, parents[p] {
		switch x := p.(type) {
		case *ast.BlockStmt:
			for _, st := range x.List {
				if st == child {
					break
				}
				if is, ok := st.(*ast.IfStmt); ok && is.Else == nil && initOnlyDefines(is.Init) && terminates(is.Body) {
					addC(is.Cond, true)
				}
			}
		case *ast.IfStmt:
			if initOnlyDefines(x.Init) {
				if child == ast.Node(x.Body) {
					addC(x.Cond, false)
				} else if child == ast.Node(x.Else) {
					addC(x.Cond, true)
				}
			}
		case *ast.FuncLit:
			return out
		}
	}
	return out
}

// inlinedArith: a call of a same-package function that only returns an arithmetic expression (read in place by the
// resolved forms): `limit := capOf(spec, x)` is then the formula capOf computes.
func inlinedArith(info *types.Info, e ast.Expr) bool {
	call, ok := ast.Unparen(e).(*ast.CallExpr)
	if !ok || polyInline == nil {
		return false
	}
	f := calleeFunc(info, call)
	if f == nil {
		return false
	}
	hd, ok := polyInline[f]
	if !ok || hd.info != info {
		return false
	}
	return hd.defs == nil && hasArith(hd.ret)
}

// inlinedPipeline: the same for a helper that names part of its formula in a local first (lookback := …; return epoch -
// lookback). Only asked of call ARGUMENTS (a formula handed straight on): as the right side of an assignment such a
// call is one step of the target's formula and is read through by the later steps.
func inlinedPipeline(info *types.Info, e ast.Expr) bool {
	call, ok := ast.Unparen(e).(*ast.CallExpr)
	if !ok || polyInline == nil {
		return false
	}
	f := calleeFunc(info, call)
	if f == nil {
		return false
	}
	hd, ok := polyInline[f]
	if !ok || hd.info != info {
		return false
	}
	return hd.defs != nil && hasArith(hd.ret)
}

// initOnlyDefines: an if statement's init that only introduces locals (`if flat := &flats[vi]; !flat.Slashed {`): the
// condition is then a condition on what the locals were defined as, like one written on the line below the definition.
func initOnlyDefines(init ast.Stmt) bool {
	if init == nil {
		return true
	}
	as, ok := init.(*ast.AssignStmt)
	return ok && as.Tok == token.DEFINE
}

// guardOf: the conditions under which node n runs, as sorted resolved NNF conjuncts joined by " & "; tests of errors and
// of nil are left out (they say the function got this far, not what it decides).
func guardOf(info *types.Info, parents map[ast.Node]ast.Node, n ast.Node, defs map[types.Object]localDef) string {
	if n == nil {
		return ""
	}
	var keep []string
	for _, a := range assumptionsAt(info, parents, n, defs) {
		if a == "" || strings.Contains(a, "nil") || strings.Contains(a, "err") || strings.Contains(a, "?") {
			continue
		}
		keep = append(keep, a)
	}
	sort.Strings(keep)
	return strings.Join(keep, " & ")
}
