package main

import (
	"bytes"
	"fmt"
	"go/ast"
	"go/printer"
	"go/types"
	"os"
	"strings"

	"golang.org/x/tools/go/packages"
)

// debugging helper: `zrntlint dump <methodname> [struct|nonstruct]` prints method bodies.
func cmdDump(args []string) int {
	p, err := load(loadOpts{repo: "/repo"})
	if err != nil {
		fmt.Println(err)
		return 2
	}
	want := map[string]bool{}
	for _, m := range strings.Split(args[0], ",") {
		want[m] = true
	}
	kind := "all"
	if len(args) > 1 {
		kind = args[1]
	}
	p.funcDecls(func(pk *packages.Package, fd *ast.FuncDecl) {
		if !want[fd.Name.Name] || fd.Recv == nil {
			return
		}
		rt := namedOf(pk.TypesInfo.TypeOf(fd.Recv.List[0].Type))
		if rt == nil {
			return
		}
		_, isStruct := rt.Underlying().(*types.Struct)
		if kind == "struct" && !isStruct || kind == "nonstruct" && isStruct {
			return
		}
		var buf bytes.Buffer
		printer.Fprint(&buf, p.Fset, fd)
		fmt.Printf("// %s  underlying=%s\n%s\n\n", p.rel(fd.Pos()), rt.Underlying(), buf.String())
	})
	return 0
}

func init() {
	if len(os.Args) > 1 && os.Args[1] == "dump" {
		os.Exit(cmdDump(os.Args[2:]))
	}
}
