package main

import (
	"go/ast"
	"go/constant"
	"go/token"
	"go/types"
)

// Symbolic reading of straight-line code: each local is followed through assignments, op-assignments and ++/-- as an
// expression over the values the variables had on entry. Two spellings of the same computation (x := a; x-- versus
// x := a - 1) give the same expression, and exprPoly the same normal form. Nothing is executed: this is substitution.
type symEnv map[types.Object]ast.Expr

func (env symEnv) clone() symEnv {
	out := symEnv{}
	for k, v := range env {
		out[k] = v
	}
	return out
}

// symSubst returns e with every identifier bound in env replaced by its expression (fresh nodes; type and constant
// information of the originals is carried over so that exprPoly keeps seeing conversions and constants).
func symSubst(info *types.Info, e ast.Expr, env symEnv) ast.Expr {
	if e == nil {
		return nil
	}
	keep := func(n, o ast.Expr) ast.Expr {
		if tv, ok := info.Types[o]; ok {
			info.Types[n] = tv
		}
		return n
	}
	switch x := e.(type) {
	case *ast.Ident:
		if v, ok := env[info.ObjectOf(x)]; ok {
			return v
		}
		return x
	case *ast.ParenExpr:
		return keep(&ast.ParenExpr{X: symSubst(info, x.X, env)}, x)
	case *ast.BinaryExpr:
		return keep(&ast.BinaryExpr{X: symSubst(info, x.X, env), Op: x.Op, Y: symSubst(info, x.Y, env), OpPos: x.OpPos}, x)
	case *ast.UnaryExpr:
		return keep(&ast.UnaryExpr{Op: x.Op, X: symSubst(info, x.X, env), OpPos: x.OpPos}, x)
	case *ast.StarExpr:
		return keep(&ast.StarExpr{X: symSubst(info, x.X, env)}, x)
	case *ast.CallExpr:
		n := &ast.CallExpr{Fun: x.Fun, Lparen: x.Lparen, Rparen: x.Rparen, Ellipsis: x.Ellipsis}
		for _, a := range x.Args {
			n.Args = append(n.Args, symSubst(info, a, env))
		}
		return keep(n, x)
	case *ast.IndexExpr:
		return keep(&ast.IndexExpr{X: symSubst(info, x.X, env), Index: symSubst(info, x.Index, env)}, x)
	case *ast.SliceExpr:
		return keep(&ast.SliceExpr{X: symSubst(info, x.X, env), Low: symSubst(info, x.Low, env), High: symSubst(info, x.High, env), Max: symSubst(info, x.Max, env), Slice3: x.Slice3}, x)
	case *ast.SelectorExpr:
		if _, isPkg := info.ObjectOf(x.Sel).(*types.PkgName); isPkg {
			return x
		}
		if id, ok := x.X.(*ast.Ident); ok {
			if _, isPkg := info.ObjectOf(id).(*types.PkgName); isPkg {
				return x
			}
		}
		n := &ast.SelectorExpr{X: symSubst(info, x.X, env), Sel: x.Sel}
		if s, ok := info.Selections[x]; ok {
			info.Selections[n] = s
		}
		return keep(n, x)
	}
	return e
}

var opOfAssign = map[token.Token]token.Token{
	token.ADD_ASSIGN: token.ADD, token.SUB_ASSIGN: token.SUB, token.MUL_ASSIGN: token.MUL, token.QUO_ASSIGN: token.QUO,
	token.REM_ASSIGN: token.REM, token.AND_ASSIGN: token.AND, token.OR_ASSIGN: token.OR, token.XOR_ASSIGN: token.XOR,
	token.SHL_ASSIGN: token.SHL, token.SHR_ASSIGN: token.SHR, token.AND_NOT_ASSIGN: token.AND_NOT,
}

// symRun follows the statements in order. It stops (ok=false) at anything that is not an assignment to plain local
// variables, a declaration, ++/--, or a final return; `ret` is the first result of that return, substituted.
func symRun(info *types.Info, stmts []ast.Stmt, env symEnv) (out symEnv, ret ast.Expr, ok bool) {
	env = env.clone()
	one := func(x ast.Expr) ast.Expr {
		l := &ast.BasicLit{Kind: token.INT, Value: "1"}
		if tv, ok := info.Types[x]; ok {
			info.Types[l] = types.TypeAndValue{Type: tv.Type, Value: constantOne}
		} else {
			info.Types[l] = types.TypeAndValue{Type: types.Typ[types.UntypedInt], Value: constantOne}
		}
		return l
	}
	for i, st := range stmts {
		switch s := st.(type) {
		case *ast.AssignStmt:
			if len(s.Lhs) != len(s.Rhs) {
				return env, nil, false
			}
			var vals []ast.Expr
			for j, l := range s.Lhs {
				id, isId := ast.Unparen(l).(*ast.Ident)
				if !isId {
					return env, nil, false
				}
				r := symSubst(info, s.Rhs[j], env)
				if op, isOp := opOfAssign[s.Tok]; isOp {
					cur := symSubst(info, id, env)
					r = &ast.BinaryExpr{X: cur, Op: op, Y: &ast.ParenExpr{X: r}}
				}
				vals = append(vals, r)
			}
			for j, l := range s.Lhs {
				id := ast.Unparen(l).(*ast.Ident)
				if id.Name != "_" {
					env[info.ObjectOf(id)] = vals[j]
				}
			}
		case *ast.IncDecStmt:
			id, isId := ast.Unparen(s.X).(*ast.Ident)
			if !isId {
				return env, nil, false
			}
			op := token.ADD
			if s.Tok == token.DEC {
				op = token.SUB
			}
			env[info.ObjectOf(id)] = &ast.BinaryExpr{X: symSubst(info, id, env), Op: op, Y: one(id)}
		case *ast.DeclStmt:
			gd, isGen := s.Decl.(*ast.GenDecl)
			if !isGen || gd.Tok != token.VAR {
				if isGen && gd.Tok == token.CONST {
					continue
				}
				return env, nil, false
			}
			for _, sp := range gd.Specs {
				vs := sp.(*ast.ValueSpec)
				if len(vs.Values) != len(vs.Names) {
					return env, nil, false
				}
				for j, nm := range vs.Names {
					env[info.Defs[nm]] = symSubst(info, vs.Values[j], env)
				}
			}
		case *ast.ReturnStmt:
			if len(s.Results) >= 1 && i == len(stmts)-1 {
				return env, symSubst(info, s.Results[0], env), true
			}
			return env, nil, false
		case *ast.EmptyStmt:
		default:
			return env, nil, false
		}
	}
	return env, nil, true
}

var constantOne = constant.MakeInt64(1)
