package main

import (
	"go/ast"
	"go/constant"
	"go/token"
	"go/types"
)

// Symbolic reading of straight-line code: each local is followed through assignments, op-assignments and ++/-- as an
// expression over the values the variables had on entry. Two spellings of the same computation (x := a; x-- versus
// x := a - 1) give the same expression, and exprPoly the same normal form. Nothing is executed: this is substitution.
type symEnv map[types.Object]ast.Expr

func (env symEnv) clone() symEnv {
	out := symEnv{}
	for k, v := range env {
		out[k] = v
	}
	return out
}

// symSubst returns e with every identifier bound in env replaced by its expression (fresh nodes; type and constant
// information of the originals is carried over so that exprPoly keeps seeing conversions and constants).
func symSubst(info *types.Info, e ast.Expr, env symEnv) ast.Expr {
	if e == nil {
		return nil
	}
	keep := func(n, o ast.Expr) ast.Expr {
		if tv, ok := info.Types[o]; ok {
			info.Types[n] = tv
		}
		return n
	}
	switch x := e.(type) {
	case *ast.Ident:
		if v, ok := env[info.ObjectOf(x)]; ok {
			return v
		}
		return x
	case *ast.ParenExpr:
		return keep(&ast.ParenExpr{X: symSubst(info, x.X, env)}, x)
	case *ast.BinaryExpr:
		return keep(&ast.BinaryExpr{X: symSubst(info, x.X, env), Op: x.Op, Y: symSubst(info, x.Y, env), OpPos: x.OpPos}, x)
	case *ast.UnaryExpr:
		return keep(&ast.UnaryExpr{Op: x.Op, X: symSubst(info, x.X, env), OpPos: x.OpPos}, x)
	case *ast.StarExpr:
		return keep(&ast.StarExpr{X: symSubst(info, x.X, env)}, x)
	case *ast.CallExpr:
		n := &ast.CallExpr{Fun: x.Fun, Lparen: x.Lparen, Rparen: x.Rparen, Ellipsis: x.Ellipsis}
		for _, a := range x.Args {
			n.Args = append(n.Args, symSubst(info, a, env))
		}
		return keep(n, x)
	case *ast.IndexExpr:
		return keep(&ast.IndexExpr{X: symSubst(info, x.X, env), Index: symSubst(info, x.Index, env)}, x)
	case *ast.SliceExpr:
		return keep(&ast.SliceExpr{X: symSubst(info, x.X, env), Low: symSubst(info, x.Low, env), High: symSubst(info, x.High, env), Max: symSubst(info, x.Max, env), Slice3: x.Slice3}, x)
	case *ast.SelectorExpr:
		if _, isPkg := info.ObjectOf(x.Sel).(*types.PkgName); isPkg {
			return x
		}
		if id, ok := x.X.(*ast.Ident); ok {
			if _, isPkg := info.ObjectOf(id).(*types.PkgName); isPkg {
				return x
			}
		}
		n := &ast.SelectorExpr{X: symSubst(info, x.X, env), Sel: x.Sel}
		if s, ok := info.Selections[x]; ok {
			info.Selections[n] = s
		}
		return keep(n, x)
	}
	return e
}

var opOfAssign = map[token.Token]token.Token{
	token.ADD_ASSIGN: token.ADD, token.SUB_ASSIGN: token.SUB, token.MUL_ASSIGN: token.MUL, token.QUO_ASSIGN: token.QUO,
	token.REM_ASSIGN: token.REM, token.AND_ASSIGN: token.AND, token.OR_ASSIGN: token.OR, token.XOR_ASSIGN: token.XOR,
	token.SHL_ASSIGN: token.SHL, token.SHR_ASSIGN: token.SHR, token.AND_NOT_ASSIGN: token.AND_NOT,
}

// symRun follows the statements in order. It stops (ok=false) at anything that is not an assignment to plain local
// variables, a declaration, ++/--, or a final return; `ret` is the first result of that return, substituted.
func symRun(info *types.Info, stmts []ast.Stmt, env symEnv) (out symEnv, ret ast.Expr, ok bool) {
	env = env.clone()
	one := func(x ast.Expr) ast.Expr {
		l := &ast.BasicLit{Kind: token.INT, Value: "1"}
		if tv, ok := info.Types[x]; ok {
			info.Types[l] = types.TypeAndValue{Type: tv.Type, Value: constantOne}
		} else {
			info.Types[l] = types.TypeAndValue{Type: types.Typ[types.UntypedInt], Value: constantOne}
		}
		return l
	}
	for i, st := range stmts {
		switch s := st.(type) {
		case *ast.AssignStmt:
			if len(s.Lhs) != len(s.Rhs) {
				return env, nil, false
			}
			var vals []ast.Expr
			for j, l := range s.Lhs {
				id, isId := ast.Unparen(l).(*ast.Ident)
				if !isId {
					return env, nil, false
				}
				r := symSubst(info, s.Rhs[j], env)
				if op, isOp := opOfAssign[s.Tok]; isOp {
					cur := symSubst(info, id, env)
					r = &ast.BinaryExpr{X: cur, Op: op, Y: &ast.ParenExpr{X: r}}
				}
				vals = append(vals, r)
			}
			for j, l := range s.Lhs {
				id := ast.Unparen(l).(*ast.Ident)
				if id.Name != "_" {
					env[info.ObjectOf(id)] = vals[j]
				}
			}
		case *ast.IncDecStmt:
			id, isId := ast.Unparen(s.X).(*ast.Ident)
			if !isId {
				return env, nil, false
			}
			op := token.ADD
			if s.Tok == token.DEC {
				op = token.SUB
			}
			env[info.ObjectOf(id)] = &ast.BinaryExpr{X: symSubst(info, id, env), Op: op, Y: one(id)}
		case *ast.DeclStmt:
			gd, isGen := s.Decl.(*ast.GenDecl)
			if !isGen || gd.Tok != token.VAR {
				if isGen && gd.Tok == token.CONST {
					continue
				}
				return env, nil, false
			}
			for _, sp := range gd.Specs {
				vs := sp.(*ast.ValueSpec)
				if len(vs.Values) != len(vs.Names) {
					return env, nil, false
				}
				for j, nm := range vs.Names {
					env[info.Defs[nm]] = symSubst(info, vs.Values[j], env)
				}
			}
		case *ast.ReturnStmt:
			if len(s.Results) >= 1 && i == len(stmts)-1 {
				return env, symSubst(info, s.Results[0], env), true
			}
			return env, nil, false
		case *ast.EmptyStmt:
		case *ast.ForStmt:
			// a counting loop over constants (for k := 1; k <= 32; k <<= 1 { … }) is unrolled: the same straight line
			unrolled, ok := symUnroll(info, s)
			if !ok {
				return env, nil, false
			}
			id := s.Init.(*ast.AssignStmt).Lhs[0].(*ast.Ident)
			obj := info.ObjectOf(id)
			for _, v := range unrolled {
				lit := &ast.BasicLit{Kind: token.INT, Value: itoa(v)}
				info.Types[lit] = types.TypeAndValue{Type: info.TypeOf(id), Value: constant.MakeInt64(v)}
				e2 := env.clone()
				e2[obj] = lit
				out2, _, ok := symRun(info, s.Body.List, e2)
				if !ok {
					return env, nil, false
				}
				delete(out2, obj)
				env = out2
			}
		default:
			return env, nil, false
		}
	}
	return env, nil, true
}

var constantOne = constant.MakeInt64(1)

// symUnroll: the values the counter of `for i := c0; i OP c1; step { body }` takes, when c0, c1 and the step are
// constants, the body does not write i, and there are at most 64 iterations.
func symUnroll(info *types.Info, f *ast.ForStmt) ([]int64, bool) {
	as, ok := f.Init.(*ast.AssignStmt)
	if !ok || as.Tok != token.DEFINE || len(as.Lhs) != 1 || len(as.Rhs) != 1 {
		return nil, false
	}
	id, ok := as.Lhs[0].(*ast.Ident)
	if !ok {
		return nil, false
	}
	obj := info.ObjectOf(id)
	cval := func(e ast.Expr) (int64, bool) {
		tv, ok := info.Types[e]
		if !ok || tv.Value == nil {
			return 0, false
		}
		return constant.Int64Val(constant.ToInt(tv.Value))
	}
	cur, ok := cval(as.Rhs[0])
	if !ok {
		return nil, false
	}
	cond, ok := f.Cond.(*ast.BinaryExpr)
	if !ok {
		return nil, false
	}
	cid, ok := ast.Unparen(cond.X).(*ast.Ident)
	if !ok || info.ObjectOf(cid) != obj {
		return nil, false
	}
	lim, ok := cval(cond.Y)
	if !ok {
		return nil, false
	}
	holds := func(v int64) bool {
		switch cond.Op {
		case token.LSS:
			return v < lim
		case token.LEQ:
			return v <= lim
		case token.GTR:
			return v > lim
		case token.GEQ:
			return v >= lim
		case token.NEQ:
			return v != lim
		}
		return false
	}
	var step func(v int64) (int64, bool)
	switch p := f.Post.(type) {
	case *ast.IncDecStmt:
		if pid, ok := ast.Unparen(p.X).(*ast.Ident); !ok || info.ObjectOf(pid) != obj {
			return nil, false
		}
		d := int64(1)
		if p.Tok == token.DEC {
			d = -1
		}
		step = func(v int64) (int64, bool) { return v + d, true }
	case *ast.AssignStmt:
		if len(p.Lhs) != 1 || len(p.Rhs) != 1 {
			return nil, false
		}
		if pid, ok := ast.Unparen(p.Lhs[0]).(*ast.Ident); !ok || info.ObjectOf(pid) != obj {
			return nil, false
		}
		c, ok := cval(p.Rhs[0])
		if !ok {
			return nil, false
		}
		switch p.Tok {
		case token.ADD_ASSIGN:
			step = func(v int64) (int64, bool) { return v + c, true }
		case token.SUB_ASSIGN:
			step = func(v int64) (int64, bool) { return v - c, true }
		case token.MUL_ASSIGN:
			step = func(v int64) (int64, bool) { return v * c, true }
		case token.SHL_ASSIGN:
			step = func(v int64) (int64, bool) { return v << uint(c), c >= 0 && c < 32 }
		case token.SHR_ASSIGN:
			step = func(v int64) (int64, bool) { return v >> uint(c), c >= 0 && c < 32 }
		default:
			return nil, false
		}
	default:
		return nil, false
	}
	// the body does not write the counter
	written := false
	ast.Inspect(f.Body, func(n ast.Node) bool {
		switch x := n.(type) {
		case *ast.AssignStmt:
			for _, l := range x.Lhs {
				if lid, ok := ast.Unparen(l).(*ast.Ident); ok && info.ObjectOf(lid) == obj {
					written = true
				}
			}
		case *ast.IncDecStmt:
			if lid, ok := ast.Unparen(x.X).(*ast.Ident); ok && info.ObjectOf(lid) == obj {
				written = true
			}
		case *ast.BranchStmt:
			written = true // break / continue: not a straight line
		}
		return !written
	})
	if written {
		return nil, false
	}
	var out []int64
	for holds(cur) {
		out = append(out, cur)
		if len(out) > 64 {
			return nil, false
		}
		nx, ok := step(cur)
		if !ok || nx == cur {
			return nil, false
		}
		cur = nx
	}
	return out, true
}
