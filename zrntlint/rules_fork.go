package main

import (
	"go/ast"
	"go/token"
	"go/types"
	"strings"

	"golang.org/x/tools/go/packages"
)

// forkRegistry returns the fork names in activation order, read from the order of the
// *_FORK_EPOCH fields of common.Config (GENESIS first, which has no epoch field).
func forkRegistry(p *Prog) []string {
	pk := p.Pkg("eth2/beacon/common")
	if pk == nil {
		anchorFail("package common not loaded")
	}
	obj := pk.Types.Scope().Lookup("Config")
	if obj == nil {
		anchorFail("common.Config not found")
	}
	st, ok := obj.Type().Underlying().(*types.Struct)
	if !ok {
		anchorFail("common.Config is not a struct")
	}
	forks := []string{"GENESIS"}
	vers := map[string]bool{}
	for i := 0; i < st.NumFields(); i++ {
		n := st.Field(i).Name()
		// EIPxxxx_* entries are the spec's stand-alone feature forks (specs/_features), not part of the
		// linear mainline fork schedule; they carry FAR_FUTURE epochs and have no decoder/state type.
		if strings.HasSuffix(n, "_FORK_EPOCH") && !strings.HasPrefix(n, "EIP") {
			forks = append(forks, strings.TrimSuffix(n, "_FORK_EPOCH"))
		}
		if strings.HasSuffix(n, "_FORK_VERSION") {
			vers[strings.TrimSuffix(n, "_FORK_VERSION")] = true
		}
	}
	if len(forks) < 6 {
		anchorFail("fork registry too small: %v", forks)
	}
	for _, f := range forks {
		if !vers[f] {
			anchorFail("fork %s has an epoch but no version field in common.Config", f)
		}
	}
	return forks
}

// forkPkg maps a registry fork name to its package name.
func forkPkg(f string) string {
	if f == "GENESIS" {
		return "phase0"
	}
	return strings.ToLower(f)
}

// forkOfItem classifies an expression as "the item of fork F": spec.F_FORK_VERSION, d.<Camel> (ForkDecoder field),
// returns "" if not recognised.
func forkOfItem(info *types.Info, e ast.Expr) string {
	e = ast.Unparen(e)
	sel, ok := e.(*ast.SelectorExpr)
	if !ok {
		return ""
	}
	n := sel.Sel.Name
	if strings.HasSuffix(n, "_FORK_VERSION") {
		return strings.TrimSuffix(n, "_FORK_VERSION")
	}
	// ForkDecoder digest field
	if s, ok := info.Selections[sel]; ok && s.Kind() == types.FieldVal {
		if nt := namedOf(s.Recv()); nt != nil && nt.Obj().Name() == "ForkDecoder" {
			return strings.ToUpper(n)
		}
	}
	return ""
}

// forkEpochOfCond: cond of the form `x < S.F_FORK_EPOCH` -> F.
func forkEpochLess(e ast.Expr) (string, bool) {
	f, op, ok := forkEpochCmp(e)
	return f, ok && op == token.LSS
}

// forkEpochCmp: any ordering comparison `x OP S.F_FORK_EPOCH`.
func forkEpochCmp(e ast.Expr) (string, token.Token, bool) {
	e = ast.Unparen(e)
	neg := false
	for {
		u, ok := e.(*ast.UnaryExpr)
		if !ok || u.Op != token.NOT {
			break
		}
		neg = !neg
		e = ast.Unparen(u.X)
	}
	be, ok := e.(*ast.BinaryExpr)
	if !ok || (be.Op != token.LSS && be.Op != token.LEQ && be.Op != token.GTR && be.Op != token.GEQ) {
		return "", 0, false
	}
	op := be.Op
	if neg {
		op = negOp[op]
	}
	// written either way round: x < S.F_FORK_EPOCH or S.F_FORK_EPOCH > x
	if sel, ok := ast.Unparen(be.Y).(*ast.SelectorExpr); ok && strings.HasSuffix(sel.Sel.Name, "_FORK_EPOCH") {
		return strings.TrimSuffix(sel.Sel.Name, "_FORK_EPOCH"), op, true
	}
	if sel, ok := ast.Unparen(be.X).(*ast.SelectorExpr); ok && strings.HasSuffix(sel.Sel.Name, "_FORK_EPOCH") {
		return strings.TrimSuffix(sel.Sel.Name, "_FORK_EPOCH"), flipOp[op], true
	}
	return "", 0, false
}

// forkChain: the same decision list, whether written as if / else-if / else, as a tagless switch with a default, or
// as consecutive `if … { return … }` statements closed by a return.
type forkChainBr struct {
	cond ast.Expr
	body *ast.BlockStmt
	pos  token.Pos
	init bool
}
type forkChain struct {
	pos     token.Pos
	brs     []forkChainBr
	elseB   *ast.BlockStmt
	elsePos token.Pos
}

func forkChainsIn(body *ast.BlockStmt) []forkChain {
	var out []forkChain
	isFE := func(e ast.Expr) bool { _, _, ok := forkEpochCmp(e); return ok }
	scan := func(list []ast.Stmt) {
		for i := 0; i < len(list); i++ {
			switch st := list[i].(type) {
			case *ast.IfStmt:
				if !isFE(st.Cond) {
					continue
				}
				ch := forkChain{pos: st.Pos()}
				cur := st
				for {
					ch.brs = append(ch.brs, forkChainBr{cur.Cond, cur.Body, cur.Pos(), cur.Init != nil})
					switch e := cur.Else.(type) {
					case *ast.IfStmt:
						cur = e
						continue
					case *ast.BlockStmt:
						ch.elseB, ch.elsePos = e, e.Pos()
					}
					break
				}
				if ch.elseB == nil {
					// early returns: further ifs of the same kind, then the closing return
					j := i + 1
					for j < len(list) {
						nx, ok := list[j].(*ast.IfStmt)
						if !ok || nx.Else != nil || !isFE(nx.Cond) || !terminates(ch.brs[len(ch.brs)-1].body) {
							break
						}
						ch.brs = append(ch.brs, forkChainBr{nx.Cond, nx.Body, nx.Pos(), nx.Init != nil})
						j++
					}
					if j < len(list) && terminates(ch.brs[len(ch.brs)-1].body) {
						if r, ok := list[j].(*ast.ReturnStmt); ok {
							ch.elseB, ch.elsePos = &ast.BlockStmt{List: []ast.Stmt{r}}, r.Pos()
							j++
						}
					}
					i = j - 1
				}
				out = append(out, ch)
			case *ast.SwitchStmt:
				if st.Tag != nil || st.Init != nil {
					continue
				}
				ch := forkChain{pos: st.Pos()}
				okSw := len(st.Body.List) > 0
				for _, cs := range st.Body.List {
					cc := cs.(*ast.CaseClause)
					blk := &ast.BlockStmt{List: cc.Body, Lbrace: cc.Colon}
					switch {
					case cc.List == nil:
						ch.elseB, ch.elsePos = blk, cc.Pos()
					case len(cc.List) == 1 && isFE(cc.List[0]) && ch.elseB == nil:
						ch.brs = append(ch.brs, forkChainBr{cc.List[0], blk, cc.Pos(), false})
					default:
						okSw = false
					}
				}
				if okSw && len(ch.brs) > 0 {
					out = append(out, ch)
				}
			}
		}
	}
	ast.Inspect(body, func(n ast.Node) bool {
		switch x := n.(type) {
		case *ast.BlockStmt:
			scan(x.List)
		case *ast.CaseClause:
			scan(x.Body)
		case *ast.CommClause:
			scan(x.Body)
		}
		return true
	})
	return out
}

func forkEpochLessOld(e ast.Expr) (string, bool) {
	be, ok := ast.Unparen(e).(*ast.BinaryExpr)
	if !ok || be.Op != token.LSS {
		return "", false
	}
	sel, ok := ast.Unparen(be.Y).(*ast.SelectorExpr)
	if !ok || !strings.HasSuffix(sel.Sel.Name, "_FORK_EPOCH") {
		return "", false
	}
	return strings.TrimSuffix(sel.Sel.Name, "_FORK_EPOCH"), true
}

func singleReturnExpr(b *ast.BlockStmt) ast.Expr {
	if b == nil || len(b.List) != 1 {
		return nil
	}
	r, ok := b.List[0].(*ast.ReturnStmt)
	if !ok || len(r.Results) != 1 {
		return nil
	}
	return r.Results[0]
}

func init() {
	register(&Rule{
		Name:  "fork.chain",
		Doc:   "every decision list over `epoch < spec.<F>_FORK_EPOCH` (if/else-if chain, tagless switch, or consecutive early returns closed by a return; operands either way round) tests the forks in registry order without gaps and through the last fork with the strict `<`; the branch for `< F` yields pred(F)'s item, the final else the last fork's",
		Floor: 8,
		Run:   ruleForkChain,
	})
	register(&Rule{
		Name:  "fork.registry",
		Doc:   "fork names agree across NewForkDecoder, BlockAllocator, EnvelopeToSignedBeaconBlock, UpgradeMaybe (pre type, fork epoch, upgrade function of the successor fork, ascending order) and each UpgradeToX's Fork literal",
		Floor: 15,
		Run:   ruleForkRegistry,
	})
}

func ruleForkChain(c *Ctx) {
	forks := forkRegistry(c.P)
	idx := map[string]int{}
	for i, f := range forks {
		idx[f] = i
	}
	chains := 0
	c.P.funcDecls(func(pk *packages.Package, fd *ast.FuncDecl) {
		if fd.Body == nil {
			return
		}
		for _, ch := range forkChainsIn(fd.Body) {
			ifs := ch
			// collect chain
			type br struct {
				fork string
				ret  ast.Expr
				pos  token.Pos
				op   token.Token
			}
			var brs []br
			var elseRet ast.Expr
			elsePos := ch.elsePos
			wellFormed := true
			for _, cb := range ch.brs {
				f, op, ok := forkEpochCmp(cb.cond)
				if !ok || cb.init {
					wellFormed = false
					break
				}
				brs = append(brs, br{f, singleReturnExpr(cb.body), cb.pos, op})
			}
			if ch.elseB != nil {
				elseRet = singleReturnExpr(ch.elseB)
			}
			if len(brs) < 2 {
				continue // a single fork-epoch comparison is not a chain
			}
			chains++
			name := pkgShort(pk.Types) + "." + funcName(fd)
			if !wellFormed {
				c.unm(name, ifs.pos, "fork-epoch chain mixed with other conditions")
				continue
			}
			for i, b := range brs {
				key := name + "[<" + b.fork + "]"
				want := i + 1
				if b.op != token.LSS {
					c.bad(key, b.pos, "the chain tests `epoch %s %s_FORK_EPOCH`: a fork is active from its fork epoch on, so the boundary epoch must fall through to the next branch (`<`)", b.op, b.fork)
					continue
				}
				if fi, ok := idx[b.fork]; !ok {
					c.bad(key, b.pos, "fork %s is not in the registry %v", b.fork, forks)
					continue
				} else if fi != want {
					c.bad(key, b.pos, "position %d of the chain tests %s_FORK_EPOCH, registry order requires %s", i, b.fork, forkAt(forks, want))
					continue
				}
				if b.ret == nil {
					c.unm(key, b.pos, "branch is not a single return")
					continue
				}
				got := forkOfItem(pk.TypesInfo, b.ret)
				if got == "" {
					c.unm(key, b.pos, "returned expression %s not recognised as a fork item", types.ExprString(b.ret))
					continue
				}
				if got != forks[want-1] {
					c.bad(key, b.pos, "epoch < %s_FORK_EPOCH must yield the %s item, returns %s", b.fork, forks[want-1], types.ExprString(b.ret))
				} else {
					c.ok(key, b.pos, "yields %s item", got)
				}
			}
			last := brs[len(brs)-1].fork
			key := name + "[else]"
			if elseRet == nil {
				c.unm(key, ifs.pos, "no final else with a single return")
			} else if got := forkOfItem(pk.TypesInfo, elseRet); got == "" {
				c.unm(key, elsePos, "else expression %s not recognised", types.ExprString(elseRet))
			} else if got != last {
				c.bad(key, elsePos, "final else follows the test of %s_FORK_EPOCH and must yield the %s item, returns %s", last, last, types.ExprString(elseRet))
			} else {
				c.ok(key, elsePos, "yields %s item", got)
			}
			key = name + "[complete]"
			if idx[last] != len(forks)-1 {
				c.bad(key, ifs.pos, "chain stops at %s; registry continues to %s (epochs of later forks get the wrong item)", last, forks[len(forks)-1])
			} else {
				c.ok(key, ifs.pos, "covers all %d forks", len(forks))
			}
		}
	})
	c.stat("chains", chains)
	if chains < 2 {
		anchorFail("expected >= 2 fork-epoch chains (Spec.ForkVersion, ForkDecoder.ForkDigest), found %d", chains)
	}
}

func forkAt(forks []string, i int) string {
	if i >= 0 && i < len(forks) {
		return forks[i]
	}
	return "(none)"
}

func ruleForkRegistry(c *Ctx) {
	forks := forkRegistry(c.P)
	idx := map[string]int{}
	for i, f := range forks {
		idx[f] = i
	}
	camel := func(f string) string { // GENESIS -> Genesis
		return f[:1] + strings.ToLower(f[1:])
	}
	// (a) NewForkDecoder
	pk, fd := c.P.mustFunc("eth2/beacon", "NewForkDecoder")
	found := 0
	ast.Inspect(fd.Body, func(n ast.Node) bool {
		cl, ok := n.(*ast.CompositeLit)
		if !ok {
			return true
		}
		if nt := namedOf(pk.TypesInfo.TypeOf(cl)); nt == nil || nt.Obj().Name() != "ForkDecoder" {
			return true
		}
		seen := map[string]bool{}
		for _, el := range cl.Elts {
			kv, ok := el.(*ast.KeyValueExpr)
			if !ok {
				continue
			}
			k, _ := kv.Key.(*ast.Ident)
			if k == nil || k.Name == "Spec" {
				continue
			}
			found++
			key := "NewForkDecoder." + k.Name
			call, ok := ast.Unparen(kv.Value).(*ast.CallExpr)
			if !ok || len(call.Args) < 1 {
				c.unm(key, kv.Pos(), "value is not a ComputeForkDigest call")
				continue
			}
			if f := calleeFunc(pk.TypesInfo, call); f == nil || f.Name() != "ComputeForkDigest" {
				// or a local closure / package function that only wraps ComputeForkDigest(version, …) of its first parameter
				wraps := false
				var body *ast.BlockStmt
				var ptype *ast.FieldList
				if id, ok := ast.Unparen(call.Fun).(*ast.Ident); ok {
					if d, ok := singleDefs(pk.TypesInfo, fd.Body)[pk.TypesInfo.Uses[id]]; ok && d.rhs != nil {
						if lit, ok := ast.Unparen(d.rhs).(*ast.FuncLit); ok {
							body, ptype = lit.Body, lit.Type.Params
						}
					}
				}
				if f != nil && body == nil && f.Pkg() == pk.Types {
					c.P.funcDecls(func(p2 *packages.Package, f2 *ast.FuncDecl) {
						if p2 == pk && p2.TypesInfo.Defs[f2.Name] == f {
							body, ptype = f2.Body, f2.Type.Params
						}
					})
				}
				if body != nil && len(body.List) == 1 && ptype != nil && len(ptype.List) >= 1 && len(ptype.List[0].Names) >= 1 {
					if r, ok := body.List[0].(*ast.ReturnStmt); ok && len(r.Results) == 1 {
						if ic, ok := ast.Unparen(r.Results[0]).(*ast.CallExpr); ok && len(ic.Args) >= 1 {
							if g := calleeFunc(pk.TypesInfo, ic); g != nil && g.Name() == "ComputeForkDigest" {
								if a0, ok := ast.Unparen(ic.Args[0]).(*ast.Ident); ok && pk.TypesInfo.ObjectOf(a0) == pk.TypesInfo.ObjectOf(ptype.List[0].Names[0]) {
									wraps = true
								}
							}
						}
					}
				}
				if !wraps {
					c.unm(key, kv.Pos(), "value is not a ComputeForkDigest call")
					continue
				}
			}
			got := forkOfItem(pk.TypesInfo, call.Args[0])
			seen[strings.ToUpper(k.Name)] = true
			if got == "" {
				c.unm(key, kv.Pos(), "version argument %s not recognised", types.ExprString(call.Args[0]))
			} else if got != strings.ToUpper(k.Name) {
				c.bad(key, kv.Pos(), "digest field %s is computed from %s", k.Name, types.ExprString(call.Args[0]))
			} else {
				c.ok(key, kv.Pos(), "from %s_FORK_VERSION", got)
			}
		}
		for _, f := range forks {
			if !seen[f] {
				c.bad("NewForkDecoder."+camel(f), cl.Pos(), "no digest computed for registry fork %s", f)
			}
		}
		return false
	})
	if found == 0 {
		anchorFail("NewForkDecoder: ForkDecoder literal not found")
	}

	// (b) BlockAllocator
	pk, fd = c.P.mustFunc("eth2/beacon", "ForkDecoder.BlockAllocator")
	found = 0
	ast.Inspect(fd.Body, func(n ast.Node) bool {
		cc, ok := n.(*ast.CaseClause)
		if !ok {
			// the same registry written as a table: rows {digest of the fork, allocator}, searched by a loop
			if row, isRow := n.(*ast.CompositeLit); isRow && len(row.Elts) == 2 {
				val := func(e ast.Expr) ast.Expr {
					if kv, ok := e.(*ast.KeyValueExpr); ok {
						return kv.Value
					}
					return e
				}
				if forkOfItem(pk.TypesInfo, val(row.Elts[0])) != "" {
					cc, ok = &ast.CaseClause{Case: row.Pos(), List: []ast.Expr{val(row.Elts[0])}, Colon: row.Pos(), Body: []ast.Stmt{&ast.ExprStmt{X: val(row.Elts[1])}}}, true
				}
			}
			// … or as a run of `if d.Fork == digest { return allocator }` (which is also what a loop over such a table
			// is read as after load-time unrolling)
			if ifs, isIf := n.(*ast.IfStmt); isIf && ifs.Else == nil {
				if be, isBe := ast.Unparen(ifs.Cond).(*ast.BinaryExpr); isBe && be.Op == token.EQL {
					for _, side := range []ast.Expr{be.X, be.Y} {
						if forkOfItem(pk.TypesInfo, side) != "" && !ok {
							cc, ok = &ast.CaseClause{Case: ifs.Pos(), List: []ast.Expr{side}, Colon: ifs.Pos(), Body: ifs.Body.List}, true
						}
					}
				}
			}
		}
		if !ok || len(cc.List) != 1 {
			return true
		}
		f := forkOfItem(pk.TypesInfo, cc.List[0])
		if f == "" {
			return true
		}
		found++
		key := "BlockAllocator." + camel(f)
		// find new(T) in the clause body
		var newT types.Type
		for _, s := range cc.Body {
			ast.Inspect(s, func(m ast.Node) bool {
				if call, ok := m.(*ast.CallExpr); ok {
					if id, ok := call.Fun.(*ast.Ident); ok && id.Name == "new" && len(call.Args) == 1 {
						if _, isB := pk.TypesInfo.Uses[id].(*types.Builtin); isB {
							newT = pk.TypesInfo.TypeOf(call.Args[0])
						}
					}
					if newT == nil {
						if u, ok := m.(*ast.CallExpr); ok {
							_ = u
						}
					}
				}
				if ue, ok := m.(*ast.UnaryExpr); ok && ue.Op == token.AND {
					if cl, ok := ue.X.(*ast.CompositeLit); ok && newT == nil {
						newT = pk.TypesInfo.TypeOf(cl)
					}
				}
				return true
			})
		}
		if newT == nil {
			// the clause hands out a named function of the package: what does that allocate?
			for _, s := range cc.Body {
				ast.Inspect(s, func(m ast.Node) bool {
					id, ok := m.(*ast.Ident)
					if !ok || newT != nil {
						return true
					}
					f, ok := pk.TypesInfo.Uses[id].(*types.Func)
					if !ok || f.Pkg() != pk.Types {
						return true
					}
					c.P.funcDecls(func(p2 *packages.Package, f2 *ast.FuncDecl) {
						if p2 != pk || f2.Body == nil || p2.TypesInfo.Defs[f2.Name] != f {
							return
						}
						ast.Inspect(f2.Body, func(k ast.Node) bool {
							if call, ok := k.(*ast.CallExpr); ok {
								if nid, ok := call.Fun.(*ast.Ident); ok && nid.Name == "new" && len(call.Args) == 1 {
									if _, isB := pk.TypesInfo.Uses[nid].(*types.Builtin); isB {
										newT = pk.TypesInfo.TypeOf(call.Args[0])
									}
								}
							}
							if ue, ok := k.(*ast.UnaryExpr); ok && ue.Op == token.AND {
								if cl, ok := ue.X.(*ast.CompositeLit); ok && newT == nil {
									newT = pk.TypesInfo.TypeOf(cl)
								}
							}
							return true
						})
					})
					return true
				})
			}
		}
		nt := namedOf(newT)
		if nt == nil {
			c.unm(key, cc.Pos(), "allocated type not found")
			return true
		}
		if nt.Obj().Pkg().Name() != forkPkg(f) || nt.Obj().Name() != "SignedBeaconBlock" {
			c.bad(key, cc.Pos(), "digest of %s allocates %s.%s, want %s.SignedBeaconBlock", f, nt.Obj().Pkg().Name(), nt.Obj().Name(), forkPkg(f))
		} else {
			c.ok(key, cc.Pos(), "allocates %s.SignedBeaconBlock", forkPkg(f))
		}
		return true
	})
	if found < 5 {
		anchorFail("BlockAllocator: only %d fork cases found", found)
	}

	// (c) EnvelopeToSignedBeaconBlock
	pk, fd = c.P.mustFunc("eth2/beacon", "EnvelopeToSignedBeaconBlock")
	found = 0
	ast.Inspect(fd.Body, func(n ast.Node) bool {
		// one body type and what is done for it: a clause of a type switch, or `if x, ok := body.(*T); ok { … }`
		var typeExpr ast.Expr
		var body []ast.Stmt
		var at ast.Node
		switch x := n.(type) {
		case *ast.CaseClause:
			if len(x.List) == 1 {
				typeExpr, body, at = x.List[0], x.Body, x
			}
		case *ast.IfStmt:
			if as, ok := x.Init.(*ast.AssignStmt); ok && len(as.Rhs) == 1 && len(as.Lhs) == 2 {
				if ta, ok := ast.Unparen(as.Rhs[0]).(*ast.TypeAssertExpr); ok && ta.Type != nil {
					if okId, isId := as.Lhs[1].(*ast.Ident); isId {
						if cid, isC := ast.Unparen(x.Cond).(*ast.Ident); isC && cid.Name == okId.Name {
							typeExpr, body, at = ta.Type, x.Body.List, x
						}
					}
				}
			}
		}
		if typeExpr == nil {
			return true
		}
		cc := at
		bt := namedOf(pk.TypesInfo.TypeOf(typeExpr))
		if bt == nil || bt.Obj().Name() != "BeaconBlockBody" {
			return true
		}
		found++
		want := bt.Obj().Pkg().Name()
		key := "EnvelopeToSignedBeaconBlock." + want
		okAll := true
		n2 := 0
		for _, s := range body {
			ast.Inspect(s, func(m ast.Node) bool {
				cl, ok := m.(*ast.CompositeLit)
				if !ok {
					return true
				}
				nt := namedOf(pk.TypesInfo.TypeOf(cl))
				if nt == nil || (nt.Obj().Name() != "SignedBeaconBlock" && nt.Obj().Name() != "BeaconBlock") {
					return true
				}
				n2++
				if nt.Obj().Pkg().Name() != want {
					okAll = false
					c.bad(key, cl.Pos(), "body of package %s wrapped into %s.%s", want, nt.Obj().Pkg().Name(), nt.Obj().Name())
				}
				return true
			})
		}
		if n2 < 2 {
			c.unm(key, cc.Pos(), "SignedBeaconBlock/BeaconBlock literals not found")
		} else if okAll {
			c.ok(key, cc.Pos(), "wrapped into %s.SignedBeaconBlock{%s.BeaconBlock}", want, want)
		}
		return true
	})
	if found < 5 {
		anchorFail("EnvelopeToSignedBeaconBlock: only %d body cases found", found)
	}

	// (d) UpgradeMaybe
	pk, fd = c.P.mustFunc("eth2/beacon", "StandardUpgradeableBeaconState.UpgradeMaybe")
	found = 0
	lastIdx := 0
	for _, st := range fd.Body.List {
		ifs, ok := st.(*ast.IfStmt)
		if !ok || ifs.Init == nil {
			continue
		}
		as, ok := ifs.Init.(*ast.AssignStmt)
		if !ok || len(as.Rhs) != 1 {
			continue
		}
		ta, ok := ast.Unparen(as.Rhs[0]).(*ast.TypeAssertExpr)
		if !ok || ta.Type == nil {
			continue
		}
		pre := namedOf(pk.TypesInfo.TypeOf(ta.Type))
		if pre == nil || pre.Obj().Name() != "BeaconStateView" {
			continue
		}
		found++
		prePkg := pre.Obj().Pkg().Name()
		preIdx := -1
		for i, f := range forks {
			if forkPkg(f) == prePkg {
				preIdx = i
			}
		}
		key := "UpgradeMaybe.from-" + prePkg
		if preIdx < 0 || preIdx+1 >= len(forks) {
			c.bad(key, ifs.Pos(), "pre-state package %s has no successor in the registry", prePkg)
			continue
		}
		next := forks[preIdx+1]
		// fork epoch used in the condition
		var epochFork string
		ast.Inspect(ifs.Cond, func(m ast.Node) bool {
			if sel, ok := m.(*ast.SelectorExpr); ok && strings.HasSuffix(sel.Sel.Name, "_FORK_EPOCH") {
				epochFork = strings.TrimSuffix(sel.Sel.Name, "_FORK_EPOCH")
			}
			return true
		})
		// the condition must be `ok && slot == <epoch>_FORK_EPOCH * SLOTS_PER_EPOCH`, the product in any spelling
		// (possibly through a helper that only returns it)
		condOK := false
		polyInline = inlinableFuncs(c.P)
		for _, leaf := range flattenBool(ifs.Cond, token.LAND) {
			_, p, op := condCutOf(pk.TypesInfo, leaf, map[types.Object]localDef{})
			if p == nil || op != token.EQL || p[""] != 0 {
				continue
			}
			prod, single := "", ""
			n := 0
			for a := range p {
				if a == "" {
					continue
				}
				n++
				if strings.Contains(a, "*") {
					prod = a
				} else {
					single = a
				}
			}
			if n == 2 && single != "" && p[prod]*p[single] == -1 {
				parts := strings.Split(prod, "*")
				if len(parts) == 2 && ((strings.HasSuffix(parts[0], "_FORK_EPOCH") && parts[1] == "SLOTS_PER_EPOCH") || (strings.HasSuffix(parts[1], "_FORK_EPOCH") && parts[0] == "SLOTS_PER_EPOCH")) {
					condOK = true
				}
			}
		}
		polyInline = nil
		// upgrade function called
		var upFn *types.Func
		var findUp func(root ast.Node, depth int)
		findUp = func(root ast.Node, depth int) {
			ast.Inspect(root, func(m ast.Node) bool {
				if call, ok := m.(*ast.CallExpr); ok {
					if f := calleeFunc(pk.TypesInfo, call); f != nil {
						if strings.HasPrefix(f.Name(), "UpgradeTo") {
							upFn = f
						} else if !f.Exported() && f.Pkg() == pk.Types && depth < 2 {
							// an unexported function of the package that does the upgrade
							c.P.funcDecls(func(p2 *packages.Package, f2 *ast.FuncDecl) {
								if p2 == pk && f2.Body != nil && p2.TypesInfo.Defs[f2.Name] == f {
									findUp(f2.Body, depth+1)
								}
							})
						}
					}
				}
				return true
			})
		}
		findUp(ifs.Body, 0)
		// s.BeaconState = post  must be assigned in the body
		stored := false
		ast.Inspect(ifs.Body, func(m ast.Node) bool {
			if a, ok := m.(*ast.AssignStmt); ok && len(a.Lhs) == 1 {
				if sel, ok := a.Lhs[0].(*ast.SelectorExpr); ok && sel.Sel.Name == "BeaconState" {
					stored = true
				}
			}
			return true
		})
		switch {
		case epochFork != next:
			c.bad(key, ifs.Pos(), "upgrade from %s is triggered at %s_FORK_EPOCH, want %s_FORK_EPOCH", prePkg, epochFork, next)
		case !condOK:
			c.unm(key, ifs.Pos(), "trigger condition is not `ok && slot == Slot(epoch)*SLOTS_PER_EPOCH`")
		case upFn == nil:
			c.bad(key, ifs.Pos(), "no UpgradeTo* call in the branch")
		case upFn.Pkg().Name() != forkPkg(next) || upFn.Name() != "UpgradeTo"+camel(next):
			c.bad(key, ifs.Pos(), "upgrade from %s calls %s.%s, want %s.UpgradeTo%s", prePkg, upFn.Pkg().Name(), upFn.Name(), forkPkg(next), camel(next))
		case !stored:
			c.bad(key, ifs.Pos(), "upgraded state is not stored back into s.BeaconState")
		case preIdx < lastIdx:
			c.bad(key, ifs.Pos(), "upgrade steps are out of fork order (a chain of upgrades at one slot would be cut short)")
		default:
			c.ok(key, ifs.Pos(), "at %s_FORK_EPOCH via %s.%s", next, upFn.Pkg().Name(), upFn.Name())
		}
		lastIdx = preIdx
	}
	// the same chain written as a type switch over the state: one case per pre-fork state type, each triggered at the
	// successor's fork epoch, calling the successor's upgrade and storing the result. A switch runs ONE case per
	// evaluation: the chain only cascades (two forks scheduled for one epoch) when the switch stands in a loop that
	// comes round again after an upgrade
	if found == 0 {
		var ts *ast.TypeSwitchStmt
		inLoop := false
		parentsU := parentMap(fd.Body)
		ast.Inspect(fd.Body, func(n ast.Node) bool {
			if x, ok := n.(*ast.TypeSwitchStmt); ok && ts == nil {
				ts = x
				for p := parentsU[n]; p != nil; p = parentsU[p] {
					if f, ok := p.(*ast.ForStmt); ok && f.Cond == nil {
						inLoop = true
					}
				}
			}
			return true
		})
		if ts != nil {
			leaves := 0
			for _, cl := range ts.Body.List {
				cc, ok := cl.(*ast.CaseClause)
				if !ok || len(cc.List) != 1 {
					continue
				}
				pre := namedOf(pk.TypesInfo.TypeOf(cc.List[0]))
				if pre == nil || pre.Obj().Name() != "BeaconStateView" {
					continue
				}
				prePkg := pre.Obj().Pkg().Name()
				preIdx := -1
				for i, f := range forks {
					if forkPkg(f) == prePkg {
						preIdx = i
					}
				}
				key := "UpgradeMaybe.from-" + prePkg
				if preIdx < 0 || preIdx+1 >= len(forks) {
					continue
				}
				next := forks[preIdx+1]
				var epochFork string
				var upFn *types.Func
				stored, leavesAfter := false, false
				body := &ast.BlockStmt{List: cc.Body}
				ast.Inspect(body, func(m ast.Node) bool {
					switch y := m.(type) {
					case *ast.SelectorExpr:
						if strings.HasSuffix(y.Sel.Name, "_FORK_EPOCH") {
							epochFork = strings.TrimSuffix(y.Sel.Name, "_FORK_EPOCH")
						}
					case *ast.CallExpr:
						if f := calleeFunc(pk.TypesInfo, y); f != nil && strings.HasPrefix(f.Name(), "UpgradeTo") {
							upFn = f
						}
					case *ast.AssignStmt:
						if len(y.Lhs) == 1 {
							if sel, ok := y.Lhs[0].(*ast.SelectorExpr); ok && sel.Sel.Name == "BeaconState" {
								stored = true
							}
						}
					}
					return true
				})
				// the case must fall out of the switch after storing (no return / break as its last statement)
				if n := len(cc.Body); n > 0 {
					switch last := cc.Body[n-1].(type) {
					case *ast.ReturnStmt:
						leavesAfter = true
					case *ast.BranchStmt:
						leavesAfter = last.Tok == token.BREAK && last.Label != nil
					}
				}
				if upFn == nil {
					continue
				}
				found++
				switch {
				case epochFork != next:
					c.bad(key, cc.Pos(), "upgrade from %s is triggered at %s_FORK_EPOCH, want %s_FORK_EPOCH", prePkg, epochFork, next)
				case upFn.Pkg().Name() != forkPkg(next) || upFn.Name() != "UpgradeTo"+camel(next):
					c.bad(key, cc.Pos(), "upgrade from %s calls %s.%s, want %s.UpgradeTo%s", prePkg, upFn.Pkg().Name(), upFn.Name(), forkPkg(next), camel(next))
				case !stored:
					c.bad(key, cc.Pos(), "upgraded state is not stored back into s.BeaconState")
				default:
					c.ok(key, cc.Pos(), "at %s_FORK_EPOCH via %s.%s (a case of the type switch)", next, upFn.Pkg().Name(), upFn.Name())
				}
				if leavesAfter {
					leaves++
				}
			}
			if found > 0 && (!inLoop || leaves > 0) {
				c.bad("UpgradeMaybe.independent", ts.Pos(), "the upgrade steps are the cases of one type switch that is evaluated once per call: when two forks activate at the same slot only the first upgrade runs and, the trigger being slot equality, the second is never retried (the switch must stand in a loop that comes round again after an upgrade)")
			}
		}
	}
	// an upgrade chained as `else if` onto another is skipped whenever the earlier one fires, although several forks may
	// share one activation epoch
	ast.Inspect(fd.Body, func(n ast.Node) bool {
		ifs, ok := n.(*ast.IfStmt)
		if !ok {
			return true
		}
		if els, ok := ifs.Else.(*ast.IfStmt); ok {
			isUp := false
			ast.Inspect(els.Body, func(m ast.Node) bool {
				if call, ok := m.(*ast.CallExpr); ok {
					if f := calleeFunc(pk.TypesInfo, call); f != nil && strings.HasPrefix(f.Name(), "UpgradeTo") {
						isUp = true
					}
				}
				return true
			})
			if isUp {
				c.bad("UpgradeMaybe.independent", els.Pos(), "an upgrade step is chained as `else if` onto the previous one: when both forks activate at the same slot only the first upgrade runs and, the trigger being slot equality, the second is never retried")
			}
		}
		return true
	})
	expectUp := 0
	for i := range forks {
		if i == 0 {
			continue
		}
		if _, ufd := c.P.findFunc("eth2/beacon/"+forkPkg(forks[i]), "UpgradeTo"+camel(forks[i])); ufd != nil {
			expectUp++
		}
	}
	if found < expectUp {
		c.bad("UpgradeMaybe.complete", fd.Pos(), "%d independent upgrade steps for %d forks that have an upgrade function", found, expectUp)
	} else {
		c.ok("UpgradeMaybe.complete", fd.Pos(), "%d independent upgrade steps, one per fork with an upgrade function", found)
	}
	if found < 3 {
		anchorFail("UpgradeMaybe: only %d upgrade branches found", found)
	}

	// (e) each UpgradeToX writes the right Fork literal
	nUp := 0
	for i, f := range forks {
		if i == 0 {
			continue
		}
		upk, ufd := c.P.findFunc("eth2/beacon/"+forkPkg(f), "UpgradeTo"+camel(f))
		if upk == nil || ufd == nil {
			continue // e.g. fulu has no package yet
		}
		nUp++
		key := "UpgradeTo" + camel(f) + ".Fork"
		var lit *ast.CompositeLit
		ast.Inspect(ufd.Body, func(m ast.Node) bool {
			if cl, ok := m.(*ast.CompositeLit); ok {
				if nt := namedOf(upk.TypesInfo.TypeOf(cl)); nt != nil && nt.Obj().Name() == "Fork" && nt.Obj().Pkg().Name() == "common" {
					lit = cl
				}
			}
			return true
		})
		if lit == nil {
			if unconditionalError(upk, ufd) {
				c.ok(key, ufd.Pos(), "upgrade declared unsupported: returns an error unconditionally")
			} else {
				c.unm(key, ufd.Pos(), "common.Fork literal not found")
			}
			continue
		}
		vals := map[string]ast.Expr{}
		for _, el := range lit.Elts {
			if kv, ok := el.(*ast.KeyValueExpr); ok {
				if k, ok := kv.Key.(*ast.Ident); ok {
					vals[k.Name] = kv.Value
				}
			}
		}
		cur, prev, ep := vals["CurrentVersion"], vals["PreviousVersion"], vals["Epoch"]
		if cur == nil || prev == nil || ep == nil {
			c.bad(key, lit.Pos(), "Fork literal does not set all of PreviousVersion, CurrentVersion, Epoch")
			continue
		}
		bad := false
		if got := forkOfItem(upk.TypesInfo, cur); got != f {
			c.bad(key, cur.Pos(), "CurrentVersion is %s, want spec.%s_FORK_VERSION", types.ExprString(cur), f)
			bad = true
		}
		// PreviousVersion must be <preFork>.CurrentVersion where preFork comes from pre.Fork()
		if sel, ok := ast.Unparen(prev).(*ast.SelectorExpr); !ok || sel.Sel.Name != "CurrentVersion" {
			c.bad(key, prev.Pos(), "PreviousVersion is %s, want the pre-state fork's CurrentVersion", types.ExprString(prev))
			bad = true
		}
		// Epoch must derive from the pre-state's slot: identifier assigned from spec.SlotToEpoch(slot)
		if !epochFromSlot(upk, ufd, ep) {
			c.bad(key, ep.Pos(), "Epoch is %s, want the epoch of the pre-state's slot", types.ExprString(ep))
			bad = true
		}
		if !bad {
			c.ok(key, lit.Pos(), "Fork{pre.CurrentVersion, %s_FORK_VERSION, epoch(slot)}", f)
		}
	}
	if nUp < 4 {
		anchorFail("only %d UpgradeToX functions found", nUp)
	}
}

// epochFromSlot: e is an identifier whose (single) definition in fd is spec.SlotToEpoch(<slot from pre.Slot()>),
// or directly such a call.
func epochFromSlot(pk *packages.Package, fd *ast.FuncDecl, e ast.Expr) bool {
	isCall := func(x ast.Expr) bool {
		call, ok := ast.Unparen(x).(*ast.CallExpr)
		if !ok {
			return false
		}
		f := calleeFunc(pk.TypesInfo, call)
		if f == nil || (f.Name() != "SlotToEpoch" && f.Name() != "GetCurrentEpoch" && f.Name() != "CurrentEpoch") {
			return false
		}
		return true
	}
	if isCall(e) {
		return true
	}
	id, ok := ast.Unparen(e).(*ast.Ident)
	if !ok {
		// e.g. epc.CurrentEpoch.Epoch
		if sel, ok := ast.Unparen(e).(*ast.SelectorExpr); ok && sel.Sel.Name == "Epoch" {
			if in, ok := ast.Unparen(sel.X).(*ast.SelectorExpr); ok && in.Sel.Name == "CurrentEpoch" {
				return true
			}
		}
		return false
	}
	obj := pk.TypesInfo.Uses[id]
	res := false
	n := 0
	ast.Inspect(fd.Body, func(m ast.Node) bool {
		as, ok := m.(*ast.AssignStmt)
		if !ok {
			return true
		}
		for i, l := range as.Lhs {
			li, ok := l.(*ast.Ident)
			if !ok {
				continue
			}
			if pk.TypesInfo.Defs[li] == obj || pk.TypesInfo.Uses[li] == obj {
				n++
				if len(as.Rhs) == len(as.Lhs) && isCall(as.Rhs[i]) {
					res = true
				}
			}
		}
		return true
	})
	return res && n == 1
}

// unconditionalError: the body is a single `return ..., <non-nil error expr>`.
func unconditionalError(pk *packages.Package, fd *ast.FuncDecl) bool {
	if len(fd.Body.List) != 1 {
		return false
	}
	r, ok := fd.Body.List[0].(*ast.ReturnStmt)
	if !ok || len(r.Results) == 0 {
		return false
	}
	last := r.Results[len(r.Results)-1]
	if id, ok := ast.Unparen(last).(*ast.Ident); ok && id.Name == "nil" {
		return false
	}
	t := pk.TypesInfo.TypeOf(last)
	return t != nil && types.Implements(t, errorIface()) || isErrorType(t)
}

func errorIface() *types.Interface {
	return types.Universe.Lookup("error").Type().Underlying().(*types.Interface)
}

func isErrorType(t types.Type) bool {
	if t == nil {
		return false
	}
	return types.Identical(t, types.Universe.Lookup("error").Type())
}
