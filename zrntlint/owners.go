package main

import (
	"go/ast"
	"go/types"

	"golang.org/x/tools/go/packages"
)

// Helper ownership. Several reviewed exceptions are stated for a function of the specification (process_deposit skips a
// deposit whose proof of possession fails: `return nil` there is a refusal; the three forgiven decode errors; the
// conditions a verification may stand under). When the part of that function the exception speaks about moves into an
// unexported function that nothing else calls, the exception moves with it: an unexported function (no method value
// taken of it, not stored anywhere) whose every call stands in one function G — or in functions themselves owned by G —
// is OWNED by G, and what is reviewed for G holds for it.

var helperOwner map[string]string // "pkg.helper" -> "pkg.Owner"

// localFuncValues: locals with exactly one definition, which is a method value (x.M) or a declared function: a call
// through such a local is a call of that function; sel is the method value's selector (nil for a plain function).
// helperCallSites: the call sites of every unexported package-level function (by plain name), with the function they
// stand in. helperEscapes: its value is also used other than by calling it (then the call sites are not all its uses).
type helperCallSite struct {
	info *types.Info
	fd   *ast.FuncDecl
	call *ast.CallExpr
}

var helperCallSites map[*types.Func][]helperCallSite
var helperEscapes = map[*types.Func]bool{}

type localFuncValue struct {
	fn  *types.Func
	sel *ast.SelectorExpr
}

var localFuncValues = map[types.Object]localFuncValue{}

func computeLocalFuncValues(p *Prog) {
	localFuncValues = map[types.Object]localFuncValue{}
	p.funcDecls(func(pk *packages.Package, fd *ast.FuncDecl) {
		if fd.Body == nil {
			return
		}
		info := pk.TypesInfo
		for o, d := range singleDefs(info, fd.Body) {
			if d.n != 1 || d.rhs == nil {
				continue
			}
			if _, isSig := o.Type().Underlying().(*types.Signature); !isSig {
				continue
			}
			switch x := ast.Unparen(d.rhs).(type) {
			case *ast.SelectorExpr:
				if s, ok := info.Selections[x]; ok && s.Kind() == types.MethodVal {
					if f, ok := s.Obj().(*types.Func); ok {
						localFuncValues[o] = localFuncValue{f, x}
					}
				} else if f, ok := info.Uses[x.Sel].(*types.Func); ok {
					localFuncValues[o] = localFuncValue{f, nil}
				}
			case *ast.Ident:
				if f, ok := info.Uses[x].(*types.Func); ok {
					localFuncValues[o] = localFuncValue{f, nil}
				}
			}
		}
	})
}

func computeOwners(p *Prog) {
	computeLocalFuncValues(p)
	helperOwner = map[string]string{}
	type rec struct {
		name    string
		callers map[string]bool
		escaped bool
	}
	recs := map[*types.Func]*rec{}
	names := map[*types.Func]string{}
	helperCallSites = map[*types.Func][]helperCallSite{}
	p.funcDecls(func(pk *packages.Package, fd *ast.FuncDecl) {
		f, _ := pk.TypesInfo.Defs[fd.Name].(*types.Func)
		if f == nil {
			return
		}
		names[f] = pkgShort(pk.Types) + "." + funcName(fd)
		if !f.Exported() && fd.Recv == nil {
			recs[f] = &rec{name: names[f], callers: map[string]bool{}}
		}
	})
	p.funcDecls(func(pk *packages.Package, fd *ast.FuncDecl) {
		if fd.Body == nil {
			return
		}
		caller := pkgShort(pk.Types) + "." + funcName(fd)
		info := pk.TypesInfo
		calledIdents := map[*ast.Ident]bool{}
		ast.Inspect(fd.Body, func(n ast.Node) bool {
			if call, ok := n.(*ast.CallExpr); ok {
				if id, ok := ast.Unparen(call.Fun).(*ast.Ident); ok {
					calledIdents[id] = true
					if f, ok := info.Uses[id].(*types.Func); ok {
						if r := recs[f]; r != nil {
							r.callers[caller] = true
							helperCallSites[f] = append(helperCallSites[f], helperCallSite{info, fd, call})
						}
					}
				}
			}
			return true
		})
		// a mention that is not a call: the function value goes somewhere
		ast.Inspect(fd.Body, func(n ast.Node) bool {
			if id, ok := n.(*ast.Ident); ok && !calledIdents[id] {
				if f, ok := info.Uses[id].(*types.Func); ok {
					if r := recs[f]; r != nil {
						r.escaped = true
						helperEscapes[f] = true
					}
				}
			}
			return true
		})
	})
	direct := map[string]string{}
	for _, r := range recs {
		if r.escaped || len(r.callers) != 1 {
			continue
		}
		for c := range r.callers {
			if c != r.name {
				direct[r.name] = c
			}
		}
	}
	for h := range direct {
		o := direct[h]
		for i := 0; i < 4; i++ {
			if up, ok := direct[o]; ok {
				o = up
			} else {
				break
			}
		}
		helperOwner[h] = o
	}
}

// ownerOrSelf: the function whose reviewed exceptions apply to fn ("pkg.Name").
func ownerOrSelf(fn string) string {
	if o, ok := helperOwner[fn]; ok {
		return o
	}
	return fn
}

// ownedHelpers: the helpers owned by fn, sorted.
func ownedHelpers(fn string) []string {
	var out []string
	for h, o := range helperOwner {
		if o == fn {
			out = append(out, h)
		}
	}
	return sortedStrings(out)
}

// withRangeValues: in the resolved forms of cmp.spec / formula.spec the value variable of `for i, v := range xs` over a
// slice or array is the element xs[i] it is a copy of (v.Exit and xs[i].Exit are one operand): a definition
// `v := xs[i]` is synthesised for it, so that a range loop and the index loop with `v := &xs[i]` read alike. Only for
// loops with a named key; the synthesised nodes are typed so that the readers can look at them.
func withRangeValues(info *types.Info, body *ast.BlockStmt, defs map[types.Object]localDef) map[types.Object]localDef {
	if body == nil {
		return defs
	}
	ast.Inspect(body, func(n ast.Node) bool {
		rs, ok := n.(*ast.RangeStmt)
		if !ok || rs.Key == nil || rs.Value == nil {
			return true
		}
		kid, ok1 := rs.Key.(*ast.Ident)
		vid, ok2 := rs.Value.(*ast.Ident)
		if !ok1 || !ok2 || kid.Name == "_" || vid.Name == "_" {
			return true
		}
		kobj, vobj := info.ObjectOf(kid), info.ObjectOf(vid)
		if kobj == nil || vobj == nil {
			return true
		}
		t := info.TypeOf(rs.X)
		if t == nil {
			return true
		}
		if p, ok := t.Underlying().(*types.Pointer); ok {
			t = p.Elem()
		}
		switch t.Underlying().(type) {
		case *types.Slice, *types.Array:
		default:
			return true
		}
		if _, dup := defs[vobj]; dup {
			return true
		}
		// the value variable must not be assigned in the loop (it would stop being the element)
		assigned := false
		ast.Inspect(rs.Body, func(k ast.Node) bool {
			switch x := k.(type) {
			case *ast.AssignStmt:
				for _, l := range x.Lhs {
					if id, ok := ast.Unparen(l).(*ast.Ident); ok && info.ObjectOf(id) == vobj {
						assigned = true
					}
				}
			case *ast.IncDecStmt:
				if id, ok := ast.Unparen(x.X).(*ast.Ident); ok && info.ObjectOf(id) == vobj {
					assigned = true
				}
			case *ast.UnaryExpr:
				if id, ok := ast.Unparen(x.X).(*ast.Ident); ok && x.Op.String() == "&" && info.ObjectOf(id) == vobj {
					assigned = true
				}
			}
			return !assigned
		})
		if assigned {
			return true
		}
		k2 := &ast.Ident{NamePos: kid.NamePos, Name: kid.Name}
		info.Uses[k2] = kobj
		info.Types[k2] = types.TypeAndValue{Type: kobj.Type()}
		ix := &ast.IndexExpr{X: rs.X, Lbrack: vid.NamePos, Index: k2, Rbrack: vid.NamePos}
		info.Types[ix] = types.TypeAndValue{Type: vobj.Type()}
		defs[vobj] = localDef{ix, 0, 1}
		return true
	})
	return defs
}
