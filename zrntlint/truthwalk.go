package main

import (
	"go/ast"
	"go/token"
	"go/types"

	"golang.org/x/tools/go/cfg"
)

// truthOutcome is where a walk under an assumption ended: a return statement, or the end of the body.
type truthOutcome struct {
	ret     *ast.ReturnStmt // nil: fell off the end of the body
	decided int             // for a return whose last boolean result the assumption decides: 1 true, -1 false, 0 not decided
}

// outcomesUnder walks the control-flow graph of body from the node that evaluates atom, with atom taken to be val.
// Boolean locals assigned on the way from expressions the assumption decides carry their value along; conditions are
// decided three-valued over !, && and || (go/cfg keeps a condition in one piece) and only the decided edge is followed,
// everything else both ways. Returns every place such a path can end; ok=false when atom is not on the graph.
func outcomesUnder(info *types.Info, body *ast.BlockStmt, atom ast.Expr, val bool) (out []truthOutcome, ok bool) {
	out, _, ok = outcomesWalk(info, body, atom, val, nil, nil, nil)
	return out, ok
}

// outcomesAfter: the same walk started right after the statement `from`, with the boolean variables of assume taken to
// hold the given values (the `ok` of `ok, err := f()` taken to be false). reached reports whether a path passes the node
// avoid on the way.
func outcomesAfter(info *types.Info, body *ast.BlockStmt, from ast.Node, assume map[types.Object]bool, avoid ast.Node) (out []truthOutcome, reached bool, ok bool) {
	return outcomesWalk(info, body, nil, false, from, assume, avoid)
}

// outcomesWithout: every place a path from the entry of body can end without having passed the node that holds stop
// (bool locals carried along, conditions decided where they can be).
func outcomesWithout(info *types.Info, body *ast.BlockStmt, stop ast.Node) (out []truthOutcome, ok bool) {
	walkStop = stop
	defer func() { walkStop = nil }()
	out, _, ok = outcomesWalk(info, body, nil, false, body, nil, nil)
	return out, ok
}

var walkStop ast.Node

func outcomesWalk(info *types.Info, body *ast.BlockStmt, atom ast.Expr, val bool, from ast.Node, assume map[types.Object]bool, avoid ast.Node) (out []truthOutcome, reached bool, ok bool) {
	g := cfg.New(body, func(*ast.CallExpr) bool { return true })
	contains := func(root, t ast.Node) bool {
		found := false
		ast.Inspect(root, func(k ast.Node) bool {
			if k == t {
				found = true
			}
			return !found
		})
		return found
	}
	type tv struct {
		v, known bool
	}
	var decide func(e ast.Expr, env map[types.Object]tv) tv
	decide = func(e ast.Expr, env map[types.Object]tv) tv {
		e = ast.Unparen(e)
		if atom != nil && (e == ast.Unparen(atom) || e == atom) {
			return tv{val, true}
		}
		if t, ok := info.Types[e]; ok && t.Value != nil {
			switch t.Value.String() {
			case "true":
				return tv{true, true}
			case "false":
				return tv{false, true}
			}
		}
		switch x := e.(type) {
		case *ast.Ident:
			if o := info.ObjectOf(x); o != nil {
				if t, ok := env[o]; ok {
					return t
				}
			}
		case *ast.UnaryExpr:
			if x.Op == token.NOT {
				if t := decide(x.X, env); t.known {
					return tv{!t.v, true}
				}
			}
		case *ast.BinaryExpr:
			switch x.Op {
			case token.LAND, token.LOR:
				a, b := decide(x.X, env), decide(x.Y, env)
				// the atom stands right of the short circuit: it was only evaluated (and the walk is about the runs
				// where it was) with the left operand true for &&, false for ||
				if atom != nil && !a.known && contains(x.Y, atom) {
					a = tv{x.Op == token.LAND, true}
				}
				if x.Op == token.LAND {
					if (a.known && !a.v) || (b.known && !b.v) {
						return tv{false, true}
					}
					if a.known && b.known {
						return tv{true, true}
					}
				} else {
					if (a.known && a.v) || (b.known && b.v) {
						return tv{true, true}
					}
					if a.known && b.known {
						return tv{false, true}
					}
				}
			case token.EQL, token.NEQ:
				// valid == false, ok != true
				a, b := decide(x.X, env), decide(x.Y, env)
				if a.known && b.known {
					return tv{(a.v == b.v) == (x.Op == token.EQL), true}
				}
			}
		}
		return tv{}
	}
	// start: the node that holds the atom
	var sb *cfg.Block
	si := -1
	for _, b := range g.Blocks {
		for i, n := range b.Nodes {
			if sb == nil && atom != nil && contains(n, atom) {
				sb, si = b, i
			}
			if sb == nil && from != nil && (n == from || contains(n, from)) {
				sb, si = b, i+1
			}
		}
	}
	if from == ast.Node(body) && len(g.Blocks) > 0 {
		sb, si = g.Blocks[0], 0
	}
	if sb == nil {
		return nil, false, false
	}
	type key struct {
		b   *cfg.Block
		sig string
	}
	seen := map[key]bool{}
	sigOf := func(env map[types.Object]tv) string {
		s := ""
		for o, t := range env {
			if t.known {
				if t.v {
					s += o.Name() + "+"
				} else {
					s += o.Name() + "-"
				}
			}
		}
		// order-independent enough for the handful of flags involved: sort characters
		r := []byte(s)
		for i := 1; i < len(r); i++ {
			for j := i; j > 0 && r[j] < r[j-1]; j-- {
				r[j], r[j-1] = r[j-1], r[j]
			}
		}
		return string(r)
	}
	var walk func(b *cfg.Block, i int, env map[types.Object]tv)
	walk = func(b *cfg.Block, i int, env map[types.Object]tv) {
		if i == 0 {
			k := key{b, sigOf(env)}
			if seen[k] {
				return
			}
			seen[k] = true
		}
		for ; i < len(b.Nodes); i++ {
			if avoid != nil && contains(b.Nodes[i], avoid) {
				reached = true
			}
			if walkStop != nil && contains(b.Nodes[i], walkStop) {
				return
			}
			switch x := b.Nodes[i].(type) {
			case *ast.ReturnStmt:
				o := truthOutcome{ret: x}
				if len(x.Results) > 0 {
					for _, r := range x.Results {
						if bt, ok := info.TypeOf(r).Underlying().(*types.Basic); ok && bt.Kind() == types.Bool {
							if t := decide(r, env); t.known {
								if t.v {
									o.decided = 1
								} else {
									o.decided = -1
								}
							}
						}
					}
				}
				out = append(out, o)
				return
			case *ast.AssignStmt:
				if len(x.Lhs) == len(x.Rhs) {
					env2 := map[types.Object]tv{}
					for k, v := range env {
						env2[k] = v
					}
					for j, l := range x.Lhs {
						id, ok := ast.Unparen(l).(*ast.Ident)
						if !ok {
							continue
						}
						o := info.ObjectOf(id)
						if o == nil {
							continue
						}
						if bt, ok := o.Type().Underlying().(*types.Basic); !ok || bt.Kind() != types.Bool {
							continue
						}
						if x.Tok == token.ASSIGN || x.Tok == token.DEFINE {
							env2[o] = decide(x.Rhs[j], env)
						} else {
							delete(env2, o)
						}
					}
					env = env2
				}
			case *ast.ValueSpec:
				for j, nm := range x.Names {
					if j < len(x.Values) {
						if o := info.Defs[nm]; o != nil {
							env2 := map[types.Object]tv{}
							for k, v := range env {
								env2[k] = v
							}
							env2[o] = decide(x.Values[j], env)
							env = env2
						}
					}
				}
			}
		}
		switch len(b.Succs) {
		case 0:
			if len(b.Nodes) > 0 {
				if es, ok := b.Nodes[len(b.Nodes)-1].(*ast.ExprStmt); ok {
					if call, ok := es.X.(*ast.CallExpr); ok {
						if id, ok := call.Fun.(*ast.Ident); ok && id.Name == "panic" {
							return
						}
					}
				}
			}
			out = append(out, truthOutcome{})
		case 2:
			if len(b.Nodes) > 0 {
				if ce, ok := b.Nodes[len(b.Nodes)-1].(ast.Expr); ok {
					if t := decide(ce, env); t.known {
						if t.v {
							walk(b.Succs[0], 0, env)
						} else {
							walk(b.Succs[1], 0, env)
						}
						return
					}
				}
			}
			walk(b.Succs[0], 0, env)
			walk(b.Succs[1], 0, env)
		default:
			for _, s := range b.Succs {
				walk(s, 0, env)
			}
		}
	}
	env0 := map[types.Object]tv{}
	for o, v := range assume {
		env0[o] = tv{v, true}
	}
	walk(sb, si, env0)
	return out, reached, true
}
