package main

func init() {
	prop("C14",
		"(D1 fork.chain) every fork-epoch if-chain (Spec.ForkVersion, ForkDecoder.ForkDigest) walks the forks in registry order, without gaps, to the last fork, and each branch yields the item of the fork active in that interval; (D2 fork.registry) NewForkDecoder, BlockAllocator, EnvelopeToSignedBeaconBlock, UpgradeMaybe and every UpgradeToX name the same fork for the same slot (digest<-version, digest->block type, body type->signed block type, pre-state type->fork epoch->upgrade function, Fork{previous,current,epoch} written by the upgrade).",
		"that a block signed under another fork version fails BLS verification (cryptographic, trusted to the BLS library); equality of envelope and block roots for all values.",
		"fork.chain", "fork.registry", "config.values", "bls.verify@common.BeaconBlockEnvelope", "lit.copy")

	prop("C04",
		"(ssz.fields) the five hand-written field lists of every SSZ container agree with one another, list every struct field once, and agree on spec.Wrap; (ssz.coll) every collection type uses the same kind, bound and element in Deserialize and HashTreeRoot; (ssz.size) FixedLength/ByteLength equal the structural size computed symbolically in the spec constants, 0 exactly for variable-size types, and follow the canonical list formulas; (ssz.elemsize) element-size arguments and FixedLenContainer use match the element's/fields' fixedness; (ssz.descriptor) struct form equals the view-form schema recursively. Because limits are compared as polynomials over spec constants, agreement holds for every configuration, not only mainnet/minimal.",
		"that ztyp's codec itself is correct (trusted); value-level round-trip equality; the JSON/YAML clause (tag spelling does not determine round-tripping, no sound shape rule exists); refusal of malformed offsets inside ztyp.",
		"ssz.fields", "ssz.coll", "ssz.size", "ssz.elemsize", "ssz.descriptor", "codec.scope")
	prop("C05",
		"(ssz.fields) HashTreeRoot lists the same fields in the same order as the codec methods; (ssz.coll) struct-form hashers use the same limits/lengths as decoding and pack basic elements at their own width; (ssz.descriptor) the struct form's shape equals the view descriptor's shape position by position and recursively, so both merkleize against the same schema; (view.build) struct->view constructors and fork upgrades place every value at the position of the field it came from; (view.elem) element views written into packed lists have the descriptor's element width; (codec.scope) struct->view helpers decode with the full byte length.",
		"ztyp merkleization and subtree-hash caching (trusted); hand-written HashTreeRoot bodies of fixed byte-array leaf types; staleness of cached roots under mutation sequences is a property of ztyp's persistent tree, outside zrnt's source.",
		"ssz.fields", "ssz.coll", "ssz.descriptor", "view.build", "view.elem", "codec.scope", "tree.alias")
	prop("C15",
		"(ring.mod) the ring-buffer sub-views (roots, mixes, slashings) address element `key mod VectorLength`; (view.index) all index-addressed accesses of all container views (six fork states and every sub-view) use an in-range constant index, apply a wrapper whose shape matches FieldDef[i], and an accessor named after a field never indexes another field; (view.iota) index-constant blocks are dense, complete, and spell the descriptor's field order; (view.raw) Raw() rebuilds each struct field from the index of that field; (view.build)/(lit.copy) positional constructors and same-name field copies do not cross fields; (view.elem) typed sub-views write elements of the right width; (ssz.descriptor) the descriptor the indices refer to is the struct's schema.",
		"that ztyp's persistent tree keeps copies independent (trusted); independence of EpochsContext clones is decided structurally only (epc.shared: structures reachable from two contexts are written only when freshly allocated); value-level getter/setter round trips.",
		"view.index", "view.iota", "view.raw", "view.build", "view.elem", "lit.copy", "ssz.descriptor", "ring.mod@phase0.", "epc.shared")

	prop("C09",
		"(cmp.spec) the comparisons frozen in cmp_table.go (reviewed one by one against the spec's wording: operands, operator, offset constants, coefficient signs) are present with exactly that operator and constant; an equality turned into an ordering test over the same operands (or the reverse) is a violation; (idx.units) every weight / best-child / best-descendant update and every delta addresses the node it means: absolute NodeIndex values are never used as positions in the live window, offset subtractions are guarded against pruned nodes, stored links are absolute; parent links to pruned nodes are skipped; (args.order) justified/finalized checkpoints and epochs are not passed crosswise through the wrapper layers; (lock.held/lock.reentry) the wrapper holds its lock around every graph/vote access and never re-enters it.",
		"that the maintained weights and links select the LMD-GHOST winner over all histories (the tabled vote-replacement, viability and tie-break comparisons and the delta arithmetic are decided one site at a time).",
		"idx.units", "score.flow", "cmp.spec@proto.|forkchoice.", "args.order@forkchoice.|proto.|fctest.", "lock.held@forkchoice.", "lock.reentry@forkchoice.")
	prop("C10",
		"(cmp.spec) the comparisons frozen in cmp_table.go (reviewed one by one against the spec's wording: operands, operator, offset constants, coefficient signs) are present with exactly that operator and constant; an equality turned into an ordering test over the same operands (or the reverse) is a violation; (lock.reentry) no path of UpdateJustified/updateJustified re-acquires the wrapper mutex, so the call returns; (args.order) the checkpoint pair is passed in the callee's parameter order; (prune.together) OnPrune notifies the sink for the node at each loop position with the flag of that same node, updates nodes/indices/indexOffset together per pruned node, prunes without a sink, and does not delete the anchor's own block-slot entry; (loop.stuck) no loop indexes with a counter that never advances; (idx.units) operations after a prune skip links to pruned parents and use relative positions.",
		"that exactly the non-descendants of the finalized node are dropped (the implementation prunes by insertion order - a design choice, see DESIGN.md); head-stays-in-finalized-subtree; refusal of conflicting checkpoints beyond the structural calls.",
		"lock.reentry@forkchoice.", "cmp.spec@forkchoice.|proto.", "args.order@forkchoice.|proto.|fctest.", "prune.together", "loop.stuck", "idx.units")
	prop("C11",
		"(cmp.spec) the comparisons frozen in cmp_table.go (reviewed one by one against the spec's wording: operands, operator, offset constants, coefficient signs) are present with exactly that operator and constant; an equality turned into an ordering test over the same operands (or the reverse) is a violation; (idx.units) every query path (CanonicalChain, CanonAtSlot, Search, InSubtree/inSubtree, FindHead) reaches nodes through offset-corrected, guarded positions; (index.guard) getNode refuses index == len.",
		"agreement of each query with a reference walk of the inserted tree; the best-descendant shortcut's validity for all tree shapes.",
		"idx.units", "index.guard", "cmp.spec@proto.", "lookup.ok")
	prop("C16",
		"(cmp.spec) the comparisons frozen in cmp_table.go (reviewed one by one against the spec's wording: operands, operator, offset constants, coefficient signs) are present with exactly that operator and constant; an equality turned into an ordering test over the same operands (or the reverse) is a violation; (cache.parent) every answer taken from a parent cache is confined to the trusted prefix (argument test for index-keyed, result test for key-keyed lookups), so a handle never reports an entry that exists only on a sibling history; (cache.recursion) AddValidator recurses only into a fresh child{parent: receiver, trustedParentCount: conflicting index}, the parent chain is acyclic, the append is preceded by the next-index check, the no-op returns the receiver; (cache.deposit) deposit processing guards hits with the state's validator count and keeps the returned handle.",
		"exactness of lookups over arbitrary fork trees of histories; concurrent use (C17).",
		"cache.parent", "cache.recursion", "cache.units", "cache.deposit", "cmp.spec@common.PubkeyCache")
	prop("C17",
		"(lock.held) for the seven mutex-carrying types (fork-choice wrapper, pubkey cache, four operation pools, sync-committee pool) every exported method holds the mutex at every access of mutable state on every path, with write mode for writes and mutating calls, helpers that need the lock are only called under it, and every acquisition is released; (lock.reentry) no same-receiver re-acquisition on any call path; (lock.atomic) check-then-act across separate critical sections; (lazy.init) unsynchronised lazy stores on values handed out by shared containers.",
		"linearizability of results; races inside ztyp/BLS; fairness. The two findings recorded earlier (PubkeyCache.AddValidator check-then-act, CachedPubkey lazy decompression) are repaired in /repo; none is open.",
		"lock.held", "lock.reentry", "lock.atomic", "lazy.init")
	prop("C20",
		"(cmp.spec) the comparisons frozen in cmp_table.go (reviewed one by one against the spec's wording: operands, operator, offset constants, coefficient signs) are present with exactly that operator and constant; an equality turned into an ordering test over the same operands (or the reverse) is a violation; (map.init) every map field that a pool method index-assigns is allocated by the constructor; (nil.maplookup) pointers from map lookups are nil/ok-tested before dereference; (lock.held) pool methods hold the pool lock around index access.",
		"that returned items are exactly what was added over histories; aggregate OR-ing of participants; pruning exactness.",
		"map.init@pool.", "nil.maplookup@pool.", "lock.held@pool.", "pool.keys", "cmp.spec@pool.|phase0.AttestationBits")

	prop("C01",
		"(cmp.spec) the comparisons frozen in cmp_table.go (reviewed one by one against the spec's wording: operands, operator, offset constants, coefficient signs) are present with exactly that operator and constant; an equality turned into an ordering test over the same operands (or the reverse) is a violation; (ring.mod) the withdrawal sweep and the stored next-withdrawal cursor wrap modulo ValidatorCount(); (pipe.stages) each fork's ProcessBlock runs exactly the spec's sub-transitions for that fork, in that fork's variant, on every success path, with non-commuting stages in spec order; (slots.order) StateTransition verifies the proposer signature before and the state root after ProcessBlock; (fork.settings) fork-dependent penalties/shares read the fork's own preset fields; (limits.first) per-block operation limits equal the SSZ limits; (exitqueue.reset) exit-queue computation resets its churn count; (engine.verdict) the payload header is stored only after the engine approved; (err.flow) no error on the block path is dropped (a dropped error = a rejected block accepted); (args.order) no permuted same-typed arguments; (view.elem/view.index) every state field the pipeline touches is addressed and typed correctly; (cache.deposit) deposits keep the pubkey cache in step.",
		"assignments outside formula_table.go and comparisons outside cmp_table.go (those tables are reviewed transcriptions, not the whole spec), the numeric range of every quantity (overflow), and equality of the post-state with the Python spec on reachable states.",
		"pipe.stages", "slots.order", "fork.settings", "limits.first", "exitqueue.reset", "engine.verdict", "cmp.spec@phase0.|altair.|capella.|deneb.|common.Process|common.Fork", "ring.mod@capella.", "err.flow", "args.order", "view.elem", "view.index", "cache.deposit")
	prop("C02",
		"(cmp.spec) the comparisons frozen in cmp_table.go (reviewed one by one against the spec's wording: operands, operator, offset constants, coefficient signs) are present with exactly that operator and constant; an equality turned into an ordering test over the same operands (or the reverse) is a violation; (ring.mod) slot/epoch-keyed ring buffers (block/state roots, randao mixes, slashings) are indexed modulo their vector length; (churn.flow) Deneb's capped activation churn limit bounds the activation queue only; (slots.order) the slot loop runs ProcessSlot, ProcessEpoch at epoch ends, SetSlot, RotateEpochs, UpgradeMaybe in that order once per slot; (pipe.stages) each fork's ProcessEpoch runs exactly the spec's epoch sub-transitions in the fork's variant with live-state dependencies ordered; (exitqueue.reset) the batched exit queue of registry updates counts churn per epoch; (fork.registry) upgrades trigger at their own fork epoch, in order, and write the right Fork; (view.build)/(lit.copy) upgrades carry every pre-state field into the same-named post field; (epc.upkeep) sync committees are loaded on the altair upgrade and rotated on the next-epoch period test; (ctx.poll)/(err.flow) failures surface.",
		"assignments and comparisons outside the reviewed tables (formula_table.go, cmp_table.go), overflow, and equality with process_slots over arbitrary histories: leak dynamics, justification over several epochs, churn over several epochs are consequences that no single-site rule decides.",
		"slots.order", "pipe.stages", "exitqueue.reset", "cmp.spec@phase0.|altair.|capella.|deneb.|common.", "ring.mod@phase0.", "churn.flow", "fork.registry", "view.build", "lit.copy", "epc.upkeep", "ctx.poll", "err.flow")
	prop("C03",
		"(cmp.spec) the comparisons frozen in cmp_table.go (reviewed one by one against the spec's wording: operands, operator, offset constants, coefficient signs) are present with exactly that operator and constant; an equality turned into an ordering test over the same operands (or the reverse) is a violation; (err.flow) every error produced on the transition path is propagated or ends the path with a refusal; values are not dereferenced before their error is examined; (bls.verify) every signature check covers the whole signing root, under the spec's domain for that message type and fork-version class, and a false result refuses; (limits.first) operation counts are bounded; (merkle.bound) the deposit proof is bounded, checked, and precedes the index increment; (slots.order) target-slot guard, signature and state-root checks; (nil.maplookup/index.guard/map.init) the three exact panic shapes; (ssz.coll) decode limits are the type's limits; (fork.chain) the version used for the envelope signature is the slot's.",
		"comparisons that are not in cmp_table.go (those listed there are decided: operands, operator, constant); explicit panic() calls guarded by invariants are listed, not judged.",
		"err.flow", "bls.verify", "cmp.spec@phase0.|altair.|capella.|deneb.|common.", "limits.first", "merkle.bound", "slots.order", "nil.maplookup", "index.guard", "map.init", "ssz.coll", "fork.chain", "adjacent.pairs")
	prop("C06",
		"(shuffle.perm) permutation clause: the whole-list routine writes its input only through two-element swaps of the list's own elements, so its output is a permutation of the input for every seed, size and round count; wiring clause: forward/inverse entry points differ only in the direction flag, the round counter runs 0..rounds-1 forwards and rounds-1..0 backwards with rounds == 0 short-circuited, the two mirrored pair loops are identical, and the epoch shuffling is an element-wise copy un-shuffled with SHUFFLE_ROUND_COUNT.",
		"that the composition of the tabled per-round formulas (pivot, flip, source byte, bit, mirror points — each decided by formula.spec) is the spec's permutation for every size and seed, and that forward and inverse are mutually inverse: numeric facts about hash-derived bits over all inputs.",
		"shuffle.perm")
	prop("C07",
		"(cmp.spec) the comparisons frozen in cmp_table.go (reviewed one by one against the spec's wording: operands, operator, offset constants, coefficient signs) are present with exactly that operator and constant; an equality turned into an ordering test over the same operands (or the reverse) is a violation; (committee.partition) committees are consecutive reslices [n*k/count, n*(k+1)/count) of one permutation over the full slot x index product, hence a partition of the active set; committee count follows the spec formula with clamp and floor; proposer and sync-committee sampling share the spec's acceptance test and permuted-index call; (seed.domain) each consumer seeds with the spec's domain; (shuffle.perm) the sliced list is a permutation of the active indices.",
		"equality of the assignment with the spec's for given randao/balances over all states (numeric); the sampling formulas, boundary tests and epoch pairing are decided individually.",
		"committee.partition", "seed.domain", "shuffle.perm", "epoch.pairing", "cmp.spec@common.Compute|common.CommitteeCount|common.ActiveIndices")
	prop("C08",
		"(epc.coverage) every field the from-scratch constructor computes is refreshed by RotateEpochs, and the genesis context computes the phase0 subset; (epc.upkeep) rotation shifts previous<-current<-next, computes next for current+1, sync committees follow the period test and are loaded on the altair upgrade; (slots.order) rotation happens after SetSlot at epoch ends; (cache.deposit) the pubkey cache grows with each new validator and the returned handle is kept; (epc.shared) shared sub-structures are never written after construction, so a cloned context is independent.",
		"value equality of the incremental and the from-scratch context along histories.",
		"epc.coverage", "epc.upkeep", "epc.shared", "assert.reach", "slots.order", "cache.deposit", "cache.parent", "cache.units")
	prop("C12",
		"(cmp.spec) the comparisons frozen in cmp_table.go (reviewed one by one against the spec's wording: operands, operator, offset constants, coefficient signs) are present with exactly that operator and constant; an equality turned into an ordering test over the same operands (or the reverse) is a violation; (gossip.mark) seen-caches are marked only where nothing but ACCEPT can follow, and every ACCEPT passes the mark of each key the validator consults; (gossip.verdict) every refusal carries the verdict class of its governing outcome (timing/availability => IGNORE, validity => REJECT), no refusal branch accepts, ACCEPT is the final unconditional return; (bls.verify) the ten verification sites the validators reach check the whole root under the spec's domain; (err.flow) a swallowed error cannot fall through to ACCEPT; (args.order).",
		"completeness of each validator against the p2p spec's full condition list beyond the tabled outcomes; exact clock-window arithmetic.",
		"gossip.mark", "gossip.verdict", "cmp.spec@gossipval.", "loop.exists", "bls.verify", "err.flow@gossipval.|phase0.|altair.|common.", "args.order@gossipval.")
	prop("C13",
		"(genesis.init) GenesisFromEth1 performs the spec's initialisation steps with the spec's arguments on every success path, updates the deposit-tree root before each deposit, rounds/caps effective balances and activates at MAX_EFFECTIVE_BALANCE, takes the validators root after activation, loads the context, and only the kick-start helpers skip signatures/proofs (helpers and local closures are read in place, arguments in resolved normal form); (cmp.spec/formula.spec) IsValidGenesisState compares with the two spec constants, the genesis formulas are the reviewed ones; (cache.deposit)(merkle.bound)(bls.verify)(err.flow) the shared ProcessDeposit obligations incl. the three spec-mandated forgiven errors; (epc.coverage) the genesis context is complete; (config.values) genesis constants are the spec's.",
		"field-for-field equality with the spec's genesis state for all deposit lists.",
		"genesis.init", "cmp.spec@phase0.IsValidGenesisState|phase0.GenesisFromEth1", "formula.spec@phase0.GenesisFromEth1", "cache.deposit", "merkle.bound", "bls.verify@phase0.ProcessDeposit", "err.flow@phase0.", "epc.coverage", "config.values")
	prop("C18",
		"(ctx.poll) each of the context polls is tested and its error returned on that branch; (err.flow) every frame between a poll / engine call and ProcessSlots/StateTransition propagates the error; (engine.verdict) each engine answer (error, invalid) becomes an error before the payload header is stored, in the spec's call order, and the engine is shown the block's payload, the versioned hashes of its commitments in order and the latest header's parent root; (slots.order) the slot loop returns each stage's error.",
		"'identical to an undisturbed run when nothing fails' beyond the structural fact that polls have no side effects (ctx is used only for Err() and forwarding - advisory list in evidence).",
		"ctx.poll", "err.flow", "engine.verdict", "slots.order")

	// ---- rules added after the second round of independent seeded changes (DESIGN §10.8)
	also := func(id, decided string, rules ...string) {
		p := properties[id]
		p.Decided += " " + decided
		p.Rules = append(p.Rules, rules...)
	}
	also("C01", "(bls.verify) every signature check on the block path is over the whole root under the spec's domain, epoch source and version; (merge.predicate) the merge-transition predicates compare whole payloads; (deposit.pop) invalid proofs of possession skip the deposit and keep the block valid; (pair.cover) both attestations / headers of a slashing get every check.",
		"bls.verify", "merge.predicate", "deposit.pop", "pair.cover@phase0.")
	also("C02", "(fork.settings) fork-dependent multipliers/quotients read the fork's own preset field; (global.hasher) no hasher state is shared between transitions; (rotate.order) epoch rotation moves each cached epoch before overwriting it.",
		"fork.settings", "global.hasher", "rotate.order@common.")
	also("C03", "(pair.cover) every verdict-producing check applied to one of two twin operands (attestation_1/2, header_1/2, sig1/2) is applied to the other; (merge.predicate) execution is not skipped for a payload that differs from the default in any field.",
		"pair.cover", "merge.predicate")
	also("C05", "(merkle.unrolled) the hand-unrolled byte-array hashers hash chunk 0..n-1 in order, zero-padded to a power of two, balanced; (global.hasher) hashers are never shared between goroutines (a shared scratch buffer would cache wrong subtree roots).",
		"merkle.unrolled", "global.hasher")
	also("C06", "(shuffle.identity) the only identity shortcuts are rounds == 0 and ranges of at most one element, in both the list and the per-index form.",
		"shuffle.identity")
	also("C07", "(shuffle.identity) as C06.", "shuffle.identity")
	also("C08", "(cmp.spec@EpochsContext) the sync-committee rotation of the cached context is gated on the new current epoch starting a period; (rotate.order) shuffling epochs are moved before being overwritten.",
		"cmp.spec@common.EpochsContext", "rotate.order@common.")
	also("C09", "(update.guard) cached justified/finalized epochs are refreshed when either differs.", "update.guard")
	also("C10", "(update.guard) as C09: after an update that changes only one of the two epochs, viability uses the new pair.", "update.guard")
	also("C11", "(bisect.step) ClosestToSlot's bisection narrows to the probed slot on both branches.", "bisect.step")
	also("C12", "(pair.cover) the gossip slashing validators check both twins.", "pair.cover@gossipval.")
	also("C13", "(deposit.pop) invalid proofs of possession (undecodable pubkey/signature, failed verification) skip the deposit; (cmp.spec@GenesisFromEth1) genesis activation compares the effective balance.",
		"deposit.pop", "cmp.spec@phase0.GenesisFromEth1|phase0.ProcessDeposit")
	also("C16", "(lock.held@PubkeyCache) a forked cache reads its parent only through the parent's locking methods.", "lock.held@common.PubkeyCache")
	also("C18", "(merge.predicate) whether the engine is consulted at all is decided on the whole payload.", "merge.predicate")
	also("C20", "(rotate.order) the sync-committee pool's slot rotation moves every buffer before overwriting it.", "rotate.order@pool.")
	also("C01", "(sibling.cmp) each fork's copy of a block-processing function makes the comparisons of its predecessor's copy up to the recorded fork deltas.", "sibling.cmp")
	also("C02", "(sibling.cmp) as C01, for the epoch-processing copies.", "sibling.cmp")
	also("C03", "(sibling.cmp) a check weakened, dropped or altered in one fork's copy only is reported against the other copy.", "sibling.cmp")
	also("C04", "(sibling.cmp) per-fork copies of SSZ methods make the same length/limit comparisons.", "sibling.cmp@electra.|deneb.|capella.|bellatrix.|altair.")
	also("C20", "(sibling.cmp) electra's copy of the attestation bitfield helpers agrees with phase0's.", "sibling.cmp@electra.AttestationBits")
	const fdoc = "(formula.spec) the tabled assignments of the spec's arithmetic carry exactly the reviewed formula (canonical polynomial form, integer division/modulo as ordered opaque atoms);"
	also("C01", fdoc+" block path: sync-aggregate and attestation proposer rewards, slashing penalties and whistleblower rewards, withdrawal cursor arithmetic, exit/withdrawable epochs.", "formula.spec")
	also("C02", fdoc+" epoch path: base rewards, flag deltas, inactivity scores and penalties, correlated slashing penalty, hysteresis thresholds, churn limit, activation/exit epochs, slot/epoch/time conversions.", "formula.spec")
	also("C07", fdoc+" committee count, committee slice offsets, slot/epoch conversions.", "formula.spec@common.CommitteeCount|common.NewShufflingEpoch|common.Spec.")
	also("C12", fdoc+" attestation subnet, aggregator modulo, sync subcommittee arithmetic.", "formula.spec@phase0.ComputeSubnetForAttestation|phase0.IsAggregator|altair.IsSyncCommitteeAggregator|common.IndexedSyncCommittee")
	also("C13", fdoc+" genesis time and genesis effective balance.", "formula.spec@phase0.GenesisFromEth1")
	prop("C19",
		"(numeric.helpers) integer_squareroot has the spec's UINT64_MAX special case ahead of the first estimate and is the spec's Newton iteration; NextPowerOfTwo smears all six widths; IsPowerOfTwo is n>0 && n&(n-1)==0; VerifyMerkleBranch folds levels 0..depth-1 with bit i of the index choosing the side and compares with the root; the helpers with an error result (TimeAtSlot, EpochStartSlot, CheckSlotSpan) test for wrap-around and return the error before the wrapped value could be handed out; (formula.spec) slot/epoch/time conversions, churn limit and committee count are the spec's formulas in canonical form; (cmp.spec) the tabled boundary tests of the gossip slot window; (merkle.bound) callers pass a branch at least as long as the depth.",
		"that the Newton iteration converges to the floor root for every input other than the special case, that results are exact when representable (a numeric statement over 2^64 values each), wrap-around inside helpers WITHOUT an error result (TimeToSlot before genesis, ComputeActivationExitEpoch near 2^64), and the exact acceptance set of the Merkle verifier beyond its fold shape. These are numeric facts no structural rule decides.",
		"numeric.helpers", "formula.spec@common.Spec.|common.CommitteeCount|common.ComputeProposers", "cmp.spec@gossipval.CheckSlotSpan", "merkle.bound")
	also("C01", "(cache.parent, cmp.spec@PubkeyCache) deposits resolve pubkeys through a cache that trusts its parent only below the fork-out index.", "cache.parent", "cmp.spec@common.PubkeyCache")
	also("C06", fdoc+" pivot, flip, source byte and bit selection of both shuffle forms, mirror points of the list form.", "formula.spec@common.innerPermuteIndex|common.innerShuffleList")
	also("C07", fdoc+" candidate index and random byte of the proposer and sync-committee samplers.", "formula.spec@common.ComputeProposerIndex|common.ComputeSyncCommitteeIndices|common.innerPermuteIndex|common.innerShuffleList")
	also("C11", "(dirty.flag) every method that appends a node marks the lazily maintained links stale on all paths, and the link readers refresh them first.", "dirty.flag")
	also("C09", "(dirty.flag) as C11: a block or slot inserted after the last head computation takes part in the next one.", "dirty.flag")
	also("C10", "(dirty.flag) as C11.", "dirty.flag")
	also("C07", "(cmp.spec@EpochsContext) the cached sync committees the context reports rotate exactly when the new current epoch starts a period.", "cmp.spec@common.EpochsContext")
	also("C15", "(cache.parent, cmp.spec@PubkeyCache) a copied state's cloned context shares the pubkey cache: a forked cache trusts its parent only below the fork-out index.", "cache.parent", "cmp.spec@common.PubkeyCache")
	also("C20", "(pool.item) attestations handed out pair the bits and the signature of one stored aggregate.", "pool.item")
	also("C01", fdoc+" and the boolean combinations of the attestation-participation and withdrawal predicates.", "formula.spec")
	// ---- round 4
	also("C02", "(finality.pairing) each finality rule finalizes the checkpoint whose epoch it tests; (sibling.index) per-fork copies of state methods address the same fields; (view.build) upgrade constructors do not cross same-typed fields (name contradiction).", "finality.pairing", "sibling.index")
	also("C04", "(cmp.spec@SlashingsHistory) a recycled vector of any other length is resized before decoding.", "cmp.spec@phase0.SlashingsHistory")
	also("C05", "(formula.spec@JustificationBits) the justification bitvector is shifted within its four bits.", "formula.spec@common.JustificationBits")
	also("C06", "(global.hasher) the shuffling hasher is per call.", "global.hasher")
	also("C07", "(sibling.index) RotateSyncCommittee and the other per-fork state methods read the same fields in every fork; (epc.source) cached committees are hydrated from the state field of the same name and never handed to an in-place filter.", "sibling.index", "epc.source")
	also("C08", "(epc.source) as C07; (epc.shared) a whole-field replacement of a shared slice does not derive from the old slice.", "epc.source")
	also("C09", "(link.kind) weight propagation follows ForkchoiceParent.", "link.kind")
	also("C11", "(link.kind) chain walks step through TransitionParent; (insert.together) a block root is recorded in blockSlots only together with its node and index entry.", "link.kind", "insert.together")
	also("C12", "(fork.chain) the fork version used to verify a block is the one of the block's epoch; "+fdoc+" gossip clock-disparity bounds.", "fork.chain", "formula.spec@gossipval.")
	also("C13", "(deposit.pop .new-only) the signature of a deposit is only inspected for a pubkey that is not in the registry yet.", "deposit.pop")
	also("C15", "(cache.deposit) the forked pubkey cache returned by AddValidator is installed in the context; (sibling.index) as C02.", "cache.deposit", "sibling.index")
	also("C18", "(make.append) the versioned-hash list shown to the engine has no zero prefix (make with length then append).", "make.append")
	also("C03", "(make.append) as C18.", "make.append")
	also("C19", fdoc+" gossip clock-disparity bounds.", "formula.spec@gossipval.CheckSlotSpan")
	// round 5: changes reported by a rule that the author's property did not list
	also("C03", "(cache.deposit) an operation is verified against the key of ITS chain: the forked pubkey cache a conflicting deposit returns is installed.", "cache.deposit")
	also("C07", "(slots.order) the epochs context is rotated before a fork upgrade reads it (the altair upgrade draws the sync committees from it).", "slots.order")
	also("C08", "(view.build) a fork upgrade rebuilds the state with every field in its own place (current/next sync committee), so that the context kept across the upgrade still describes it; (lock.held@PubkeyCache) lookups through a forked cache take the parent's lock.", "view.build", "lock.held@common.PubkeyCache")
	also("C11", "(prune.together) pruning removes a node's index, slot and block-slot entries together.", "prune.together")
	also("C14", "(view.build) the Fork container is built with previous and current version in their own places.", "view.build@common.Fork")
	also("C18", "(global.hasher) the versioned hashes shown to the engine are computed with a per-call hasher.", "global.hasher")
	// round 5: new rules
	also("C03", "(ops.loop) every per-block operation list is walked once, each operation checked and applied before the next is looked at (a duplicated exit/slashing in one block is then refused by the second check); (handle.kept) the handle a functional update of the pubkey cache returns is installed.", "ops.loop", "handle.kept")
	also("C01", "(ops.loop, flag.refined) as C03 / C16.", "ops.loop", "flag.refined")
	also("C16", "(flag.refined) once the hit of the pubkey lookup was narrowed to `known AND inside this registry`, every later decision of ProcessDeposit tests the narrowed flag; (handle.kept) as C03.", "flag.refined", "handle.kept")
	also("C15", "(flag.refined) as C16.", "flag.refined")
	also("C05", "(node.copy) no tree node is copied by value (the copy would keep the memoised root of the original).", "node.copy")
	also("C04", "(node.copy) as C05.", "node.copy")
	also("C12", "(reslice.zero) a gossip validator does not build its working sets in the memory of the message it validates.", "reslice.zero")
	also("C15", "(epc.source) a function that sorts or rewrites (an alias of) its committee argument is never handed a committee of the shared context; (reslice.zero) x[:0] is only written over a function's own buffer.", "epc.source", "reslice.zero")
	also("C08", "(reslice.zero) as C15.", "reslice.zero")
	also("C13", "(global.view) genesis does not build on a tree view shared through a package-level variable.", "global.view")
	also("C05", "(global.view) as C13.", "global.view")
	also("C17", "(publish.init) a value published through an atomic pointer is complete when it is published.", "publish.init")
	also("C16", "(publish.init) as C17.", "publish.init")
	also("C20", "(pool.buffers) items of the previous / current / next slot go to the prev… / current… / next… generation of the sync-committee pool's buffers; (pool.covers) the stored aggregate is asked whether it covers the incoming one, not the reverse.", "pool.buffers", "pool.covers")
	also("C15", "(cmp.spec@ExtraData) a payload header whose extra_data has exactly MAX_EXTRA_DATA_BYTES bytes can be stored.", "cmp.spec@common.ExtraData")
	also("C04", "(cmp.spec@ExtraData) as C15.", "cmp.spec@common.ExtraData")
	also("C09", "(fc.commit) a new justified/finalized pair is taken as one step: the graph is re-weighted and the balances stored on every path that stores the new justified checkpoint, and the pin is cleared on every path to the prune.", "fc.commit")
	also("C10", "(fc.commit) as C09.", "fc.commit")
	also("C08", "(cache.recursion) the pubkey cache that accompanies the context forks out with the conflicting index as its trusted prefix.", "cache.recursion")
	also("C01", "(validator.new) a deposit for a new key adds the spec's validator record and the deposited amount as its balance.", "validator.new")
	also("C13", "(validator.new) as C01: genesis deposits.", "validator.new")
	also("C11", "(lock.held@forkchoice) a query that may refresh the best-child links runs under the exclusive lock.", "lock.held@forkchoice.")
	also("C12", "(cmp.spec@phase0.Validate|altair.Validate) the conditions of process_voluntary_exit / process_*_slashing that the gossip validators apply through the phase0/altair helpers.", "cmp.spec@phase0.ValidateVoluntaryExit|phase0.ValidateProposerSlashing|phase0.ValidateAttesterSlashing|altair.Validate")
	also("C14", "(slots.order) the fork upgrade happens in the slot round that reaches the fork's first slot (after the slot is set).", "slots.order")
	also("C15", "(global.hasher) no hasher with hidden scratch memory is shared through a package-level variable.", "global.hasher")
	also("C01", "(loop.every) an operation that applies to every element of a set (each slashable attester) is not cut short by a break.", "loop.every")
	also("C03", "(loop.every) as C01.", "loop.every")
	also("C02", "(loop.every) as C01: epoch sweeps.", "loop.every")
	also("C15", "(node.copy) a leaf handed out by a tree is not written through.", "node.copy")
	also("C04", "(text.hex) the text form of a fixed-size byte type decodes exactly 2*N hex digits into the whole value and removes `0x` as a prefix.", "text.hex")
	also("C17", "(lock.escape) a locking method does not hand out a pointer into guarded state that the package goes on writing.", "lock.escape")
	also("C20", "(lock.escape) as C17.", "lock.escape")
	also("C07", "(epc.shared) a shuffling owns its arrays: none is taken from a slice the caller hands in or from another structure.", "epc.shared")
	also("C19", fdoc+" deneb's activation churn cap min(MAX_PER_EPOCH_ACTIVATION_CHURN_LIMIT, churn limit).", "formula.spec@deneb.ProcessEpochRegistryUpdates")
	also("C02", "(committee.partition: sampling) the sync-committee sampler weighs the candidate's effective balance as read from the state's registry, under the spec's single acceptance test.", "committee.partition")
	also("C01", "(cmp.spec@common.EpochsContext) the sync committee a block's sync aggregate is checked against is the one the context rotated in at the period boundary.", "cmp.spec@common.EpochsContext")
	also("C02", "(loop.stale) a value computed from a running maximum inside a sweep is not read from before the loop that advances it.", "loop.stale")
	also("C01", "(loop.stale) as C02.", "loop.stale")
	also("C03", "(epc.source) attestations are checked against committees and sync committees hydrated from the state field of the same name.", "epc.source")
	also("C08", "(committee.partition: sampling) the proposers kept in the context are sampled with effective balances read from the state's registry.", "committee.partition")
	also("C09", "(prune.together) after a prune every index still names the node it named before (offset and slice move together), so the head walk starts from the right node.", "prune.together")
	also("C10", "(lock.held@forkchoice)(err.flow@proto|forkchoice) the justified/finalized update holds the exclusive lock from the first write to the last, and an error of the prune sink is returned as it is.", "lock.held@forkchoice.", "err.flow@proto.|forkchoice.")
	also("C15", "(tree.alias) a value handed to a setter is stored by value: no tree leaf points into the caller's struct.", "tree.alias")
	also("C17", "(global.hasher) a hasher with scratch memory is not kept in a structure that several goroutines call into.", "global.hasher")
	const gdoc = "(global.state) no function other than init writes a package-level variable: results depend on the arguments, not on earlier calls by any state or configuration of the process."
	also("C02", gdoc, "global.state")
	also("C05", gdoc+" (tree.fill) the backing tree of a vector is filled to its length, not to the full cover depth.", "global.state", "tree.fill")
	also("C06", gdoc, "global.state")
	also("C07", gdoc, "global.state")
	also("C08", gdoc, "global.state")
	also("C15", gdoc+" (decode.recv) loading encoded bytes decodes into the caller's value (pointer receivers).", "global.state", "decode.recv")
	also("C13", "(tree.fill) the genesis randao mixes vector is filled to its length.", "tree.fill")
	also("C04", "(decode.recv) every decoding method decodes into the caller's value; (ssz.writer) Serialize makes the structural codec calls Deserialize reads back.", "decode.recv", "ssz.writer")
	also("C05", "(htr.computed) every HashTreeRoot return is computed with the hash function or is the receiver's own bytes, never a constant.", "htr.computed")
	also("C19", "(numeric.signed) time and slot differences are taken unsigned behind an ordering test, never through a signed conversion that is wrong beyond half the range.", "numeric.signed")
	also("C02", "(numeric.signed) as C19.", "numeric.signed")
	also("C07", fdoc+" the randao mix a seed is taken from: epoch + EPOCHS_PER_HISTORICAL_VECTOR - MIN_SEED_LOOKAHEAD - 1.", "formula.spec@common.GetSeed")
	also("C06", "(formula.spec@common.GetSeed) as C07.", "formula.spec@common.GetSeed")
	const fadoc = "(filter.all) a query with several optional criteria applies every one that is set: each accepting place of the reviewed search functions, and of the predicates they hand their criteria to, is reached only after all criteria were looked at."
	also("C11", fadoc, "filter.all")
	also("C20", fadoc, "filter.all")
	const edoc = "(effect.always) every effect (state-changing call, context poll, store into the receiver) that lay on every path to success in a function of the reviewed tree still does: no early success return goes round it."
	forkPk := "phase0.|altair.|bellatrix.|capella.|deneb.|electra."
	also("C01", edoc, "effect.always@"+forkPk+"|common.ProcessSlots|common.StateTransition|common.PostSlotTransition|beacon.")
	also("C02", edoc, "effect.always@"+forkPk+"|common.ProcessSlots|common.EpochsContext|beacon.")
	also("C03", edoc, "effect.always@"+forkPk+"|common.")
	also("C05", edoc+" (setters store what they are given)", "effect.always@"+forkPk+"|common.")
	also("C07", edoc, "effect.always@common.")
	also("C08", edoc, "effect.always@common.EpochsContext|common.PubkeyCache|common.ProcessSlots|"+forkPk)
	also("C09", edoc, "effect.always@proto.|forkchoice.")
	also("C10", edoc, "effect.always@proto.|forkchoice.")
	also("C11", edoc, "effect.always@proto.|forkchoice.")
	also("C13", edoc, "effect.always@phase0.")
	also("C15", edoc+" (setters store what they are given)", "effect.always@"+forkPk+"|common.")
	also("C16", edoc, "effect.always@common.PubkeyCache|phase0.ProcessDeposit")
	also("C17", edoc, "effect.always@pool.|forkchoice.|common.PubkeyCache")
	also("C18", edoc+" (the context is polled on every path to success where it was)", "effect.always@"+forkPk+"|common.")
	also("C17", "(lock.recv) every method of a mutex-carrying type has a pointer receiver (a value receiver locks a copy).", "lock.recv")
	also("C20", "(lock.recv) as C17.", "lock.recv")
	also("C04", "(tag.unique) the json / yaml names of a struct's fields are unique (a duplicate drops both from the text form).", "tag.unique")
	also("C19", "(global.hasher) the package-level Hash is the stateless sha256.Sum256, not a digest object shared by every caller.", "global.hasher")
	also("C05", "(lit.copy) a conversion between the struct forms of one SSZ object (blinded / full body) copies every field the two forms share.", "lit.copy")
	also("C01", "(fork.registry) the chain of fork upgrades applies every upgrade that is due at a slot (two forks scheduled for one epoch are both applied).", "fork.registry")
	also("C16", "(lock.atomic@PubkeyCache) an append that lost the race for an index re-decides under the lock instead of reporting the other writer's pair as its own.", "lock.atomic@common.PubkeyCache")
}
