package main

func init() {
	prop("C14",
		"(D1 fork.chain) every fork-epoch if-chain (Spec.ForkVersion, ForkDecoder.ForkDigest) walks the forks in registry order, without gaps, to the last fork, and each branch yields the item of the fork active in that interval; (D2 fork.registry) NewForkDecoder, BlockAllocator, EnvelopeToSignedBeaconBlock, UpgradeMaybe and every UpgradeToX name the same fork for the same slot (digest<-version, digest->block type, body type->signed block type, pre-state type->fork epoch->upgrade function, Fork{previous,current,epoch} written by the upgrade).",
		"that a block signed under another fork version fails BLS verification (cryptographic, trusted to the BLS library); equality of envelope and block roots for all values.",
		"fork.chain", "fork.registry")
}
