package main

func init() {
	prop("C14",
		"(D1 fork.chain) every fork-epoch if-chain (Spec.ForkVersion, ForkDecoder.ForkDigest) walks the forks in registry order, without gaps, to the last fork, and each branch yields the item of the fork active in that interval; (D2 fork.registry) NewForkDecoder, BlockAllocator, EnvelopeToSignedBeaconBlock, UpgradeMaybe and every UpgradeToX name the same fork for the same slot (digest<-version, digest->block type, body type->signed block type, pre-state type->fork epoch->upgrade function, Fork{previous,current,epoch} written by the upgrade).",
		"that a block signed under another fork version fails BLS verification (cryptographic, trusted to the BLS library); equality of envelope and block roots for all values.",
		"fork.chain", "fork.registry")

	prop("C04",
		"(ssz.fields) the five hand-written field lists of every SSZ container agree with one another, list every struct field once, and agree on spec.Wrap; (ssz.coll) every collection type uses the same kind, bound and element in Deserialize and HashTreeRoot; (ssz.size) FixedLength/ByteLength equal the structural size computed symbolically in the spec constants, 0 exactly for variable-size types, and follow the canonical list formulas; (ssz.elemsize) element-size arguments and FixedLenContainer use match the element's/fields' fixedness; (ssz.descriptor) struct form equals the view-form schema recursively. Because limits are compared as polynomials over spec constants, agreement holds for every configuration, not only mainnet/minimal.",
		"that ztyp's codec itself is correct (trusted); value-level round-trip equality; the JSON/YAML clause (tag spelling does not determine round-tripping, no sound shape rule exists); refusal of malformed offsets inside ztyp.",
		"ssz.fields", "ssz.coll", "ssz.size", "ssz.elemsize", "ssz.descriptor", "codec.scope")
	prop("C05",
		"(ssz.fields) HashTreeRoot lists the same fields in the same order as the codec methods; (ssz.coll) struct-form hashers use the same limits/lengths as decoding and pack basic elements at their own width; (ssz.descriptor) the struct form's shape equals the view descriptor's shape position by position and recursively, so both merkleize against the same schema; (view.build) struct->view constructors and fork upgrades place every value at the position of the field it came from; (view.elem) element views written into packed lists have the descriptor's element width; (codec.scope) struct->view helpers decode with the full byte length.",
		"ztyp merkleization and subtree-hash caching (trusted); hand-written HashTreeRoot bodies of fixed byte-array leaf types; staleness of cached roots under mutation sequences is a property of ztyp's persistent tree, outside zrnt's source.",
		"ssz.fields", "ssz.coll", "ssz.descriptor", "view.build", "view.elem", "codec.scope")
	prop("C15",
		"(view.index) all index-addressed accesses of all container views (six fork states and every sub-view) use an in-range constant index, apply a wrapper whose shape matches FieldDef[i], and an accessor named after a field never indexes another field; (view.iota) index-constant blocks are dense, complete, and spell the descriptor's field order; (view.raw) Raw() rebuilds each struct field from the index of that field; (view.build)/(lit.copy) positional constructors and same-name field copies do not cross fields; (view.elem) typed sub-views write elements of the right width; (ssz.descriptor) the descriptor the indices refer to is the struct's schema.",
		"that ztyp's persistent tree keeps copies independent (trusted); independence of EpochsContext clones is decided under C08 rules; value-level getter/setter round trips.",
		"view.index", "view.iota", "view.raw", "view.build", "view.elem", "lit.copy", "ssz.descriptor")
}
