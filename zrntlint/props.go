package main

func init() {
	prop("C14",
		"(D1 fork.chain) every fork-epoch if-chain (Spec.ForkVersion, ForkDecoder.ForkDigest) walks the forks in registry order, without gaps, to the last fork, and each branch yields the item of the fork active in that interval; (D2 fork.registry) NewForkDecoder, BlockAllocator, EnvelopeToSignedBeaconBlock, UpgradeMaybe and every UpgradeToX name the same fork for the same slot (digest<-version, digest->block type, body type->signed block type, pre-state type->fork epoch->upgrade function, Fork{previous,current,epoch} written by the upgrade).",
		"that a block signed under another fork version fails BLS verification (cryptographic, trusted to the BLS library); equality of envelope and block roots for all values.",
		"fork.chain", "fork.registry")

	prop("C04",
		"(ssz.fields) the five hand-written field lists of every SSZ container agree with one another, list every struct field once, and agree on spec.Wrap; (ssz.coll) every collection type uses the same kind, bound and element in Deserialize and HashTreeRoot; (ssz.size) FixedLength/ByteLength equal the structural size computed symbolically in the spec constants, 0 exactly for variable-size types, and follow the canonical list formulas; (ssz.elemsize) element-size arguments and FixedLenContainer use match the element's/fields' fixedness; (ssz.descriptor) struct form equals the view-form schema recursively. Because limits are compared as polynomials over spec constants, agreement holds for every configuration, not only mainnet/minimal.",
		"that ztyp's codec itself is correct (trusted); value-level round-trip equality; the JSON/YAML clause (tag spelling does not determine round-tripping, no sound shape rule exists); refusal of malformed offsets inside ztyp.",
		"ssz.fields", "ssz.coll", "ssz.size", "ssz.elemsize", "ssz.descriptor", "codec.scope")
	prop("C05",
		"(ssz.fields) HashTreeRoot lists the same fields in the same order as the codec methods; (ssz.coll) struct-form hashers use the same limits/lengths as decoding and pack basic elements at their own width; (ssz.descriptor) the struct form's shape equals the view descriptor's shape position by position and recursively, so both merkleize against the same schema; (view.build) struct->view constructors and fork upgrades place every value at the position of the field it came from; (view.elem) element views written into packed lists have the descriptor's element width; (codec.scope) struct->view helpers decode with the full byte length.",
		"ztyp merkleization and subtree-hash caching (trusted); hand-written HashTreeRoot bodies of fixed byte-array leaf types; staleness of cached roots under mutation sequences is a property of ztyp's persistent tree, outside zrnt's source.",
		"ssz.fields", "ssz.coll", "ssz.descriptor", "view.build", "view.elem", "codec.scope")
	prop("C15",
		"(view.index) all index-addressed accesses of all container views (six fork states and every sub-view) use an in-range constant index, apply a wrapper whose shape matches FieldDef[i], and an accessor named after a field never indexes another field; (view.iota) index-constant blocks are dense, complete, and spell the descriptor's field order; (view.raw) Raw() rebuilds each struct field from the index of that field; (view.build)/(lit.copy) positional constructors and same-name field copies do not cross fields; (view.elem) typed sub-views write elements of the right width; (ssz.descriptor) the descriptor the indices refer to is the struct's schema.",
		"that ztyp's persistent tree keeps copies independent (trusted); independence of EpochsContext clones is decided under C08 rules; value-level getter/setter round trips.",
		"view.index", "view.iota", "view.raw", "view.build", "view.elem", "lit.copy", "ssz.descriptor")

	prop("C09",
		"(idx.units) every weight / best-child / best-descendant update and every delta addresses the node it means: absolute NodeIndex values are never used as positions in the live window, offset subtractions are guarded against pruned nodes, stored links are absolute; parent links to pruned nodes are skipped; (args.order) justified/finalized checkpoints and epochs are not passed crosswise through the wrapper layers; (lock.held/lock.reentry) the wrapper holds its lock around every graph/vote access and never re-enters it.",
		"that the maintained weights and links select the LMD-GHOST winner over histories; vote replacement rules in the vote store; viability filtering semantics.",
		"idx.units", "args.order@forkchoice.|proto.|fctest.", "lock.held@forkchoice.", "lock.reentry@forkchoice.")
	prop("C10",
		"(lock.reentry) no path of UpdateJustified/updateJustified re-acquires the wrapper mutex, so the call returns; (args.order) the checkpoint pair is passed in the callee's parameter order; (prune.together) OnPrune notifies the sink for the node at each loop position with the flag of that same node, updates nodes/indices/indexOffset together per pruned node, prunes without a sink, and does not delete the anchor's own block-slot entry; (loop.stuck) no loop indexes with a counter that never advances; (idx.units) operations after a prune skip links to pruned parents and use relative positions.",
		"that exactly the non-descendants of the finalized node are dropped (the implementation prunes by insertion order - a design choice, see DESIGN.md); head-stays-in-finalized-subtree; refusal of conflicting checkpoints beyond the structural calls.",
		"lock.reentry@forkchoice.", "args.order@forkchoice.|proto.|fctest.", "prune.together", "loop.stuck", "idx.units")
	prop("C11",
		"(idx.units) every query path (CanonicalChain, CanonAtSlot, Search, InSubtree/inSubtree, FindHead) reaches nodes through offset-corrected, guarded positions; (index.guard) getNode refuses index == len.",
		"agreement of each query with a reference walk of the inserted tree; the best-descendant shortcut's validity for all tree shapes.",
		"idx.units", "index.guard")
	prop("C16",
		"(cache.parent) every answer taken from a parent cache is confined to the trusted prefix (argument test for index-keyed, result test for key-keyed lookups), so a handle never reports an entry that exists only on a sibling history; (cache.recursion) AddValidator recurses only into a fresh child{parent: receiver, trustedParentCount: conflicting index}, the parent chain is acyclic, the append is preceded by the next-index check, the no-op returns the receiver; (cache.deposit) deposit processing guards hits with the state's validator count and keeps the returned handle.",
		"exactness of lookups over arbitrary fork trees of histories; concurrent use (C17).",
		"cache.parent", "cache.recursion", "cache.deposit")
	prop("C17",
		"(lock.held) for the seven mutex-carrying types (fork-choice wrapper, pubkey cache, four operation pools, sync-committee pool) every exported method holds the mutex at every access of mutable state on every path, with write mode for writes and mutating calls, helpers that need the lock are only called under it, and every acquisition is released; (lock.reentry) no same-receiver re-acquisition on any call path; (lock.atomic) check-then-act across separate critical sections; (lazy.init) unsynchronised lazy stores on values handed out by shared containers.",
		"linearizability of results; races inside ztyp/BLS; fairness. Two recorded findings remain (PubkeyCache.AddValidator check-then-act, CachedPubkey lazy decompression).",
		"lock.held", "lock.reentry", "lock.atomic", "lazy.init")
	prop("C20",
		"(map.init) every map field that a pool method index-assigns is allocated by the constructor; (nil.maplookup) pointers from map lookups are nil/ok-tested before dereference; (lock.held) pool methods hold the pool lock around index access.",
		"that returned items are exactly what was added over histories; aggregate OR-ing of participants; pruning exactness.",
		"map.init@pool.", "nil.maplookup@pool.", "lock.held@pool.")
}
