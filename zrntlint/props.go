package main

func init() {
	prop("C14",
		"(D1 fork.chain) every fork-epoch if-chain (Spec.ForkVersion, ForkDecoder.ForkDigest) walks the forks in registry order, without gaps, to the last fork, and each branch yields the item of the fork active in that interval; (D2 fork.registry) NewForkDecoder, BlockAllocator, EnvelopeToSignedBeaconBlock, UpgradeMaybe and every UpgradeToX name the same fork for the same slot (digest<-version, digest->block type, body type->signed block type, pre-state type->fork epoch->upgrade function, Fork{previous,current,epoch} written by the upgrade).",
		"that a block signed under another fork version fails BLS verification (cryptographic, trusted to the BLS library); equality of envelope and block roots for all values.",
		"fork.chain", "fork.registry", "config.values", "bls.verify@common.BeaconBlockEnvelope", "lit.copy")

	prop("C04",
		"(ssz.fields) the five hand-written field lists of every SSZ container agree with one another, list every struct field once, and agree on spec.Wrap; (ssz.coll) every collection type uses the same kind, bound and element in Deserialize and HashTreeRoot; (ssz.size) FixedLength/ByteLength equal the structural size computed symbolically in the spec constants, 0 exactly for variable-size types, and follow the canonical list formulas; (ssz.elemsize) element-size arguments and FixedLenContainer use match the element's/fields' fixedness; (ssz.descriptor) struct form equals the view-form schema recursively. Because limits are compared as polynomials over spec constants, agreement holds for every configuration, not only mainnet/minimal.",
		"that ztyp's codec itself is correct (trusted); value-level round-trip equality; the JSON/YAML clause (tag spelling does not determine round-tripping, no sound shape rule exists); refusal of malformed offsets inside ztyp.",
		"ssz.fields", "ssz.coll", "ssz.size", "ssz.elemsize", "ssz.descriptor", "codec.scope")
	prop("C05",
		"(ssz.fields) HashTreeRoot lists the same fields in the same order as the codec methods; (ssz.coll) struct-form hashers use the same limits/lengths as decoding and pack basic elements at their own width; (ssz.descriptor) the struct form's shape equals the view descriptor's shape position by position and recursively, so both merkleize against the same schema; (view.build) struct->view constructors and fork upgrades place every value at the position of the field it came from; (view.elem) element views written into packed lists have the descriptor's element width; (codec.scope) struct->view helpers decode with the full byte length.",
		"ztyp merkleization and subtree-hash caching (trusted); hand-written HashTreeRoot bodies of fixed byte-array leaf types; staleness of cached roots under mutation sequences is a property of ztyp's persistent tree, outside zrnt's source.",
		"ssz.fields", "ssz.coll", "ssz.descriptor", "view.build", "view.elem", "codec.scope", "tree.alias")
	prop("C15",
		"(view.index) all index-addressed accesses of all container views (six fork states and every sub-view) use an in-range constant index, apply a wrapper whose shape matches FieldDef[i], and an accessor named after a field never indexes another field; (view.iota) index-constant blocks are dense, complete, and spell the descriptor's field order; (view.raw) Raw() rebuilds each struct field from the index of that field; (view.build)/(lit.copy) positional constructors and same-name field copies do not cross fields; (view.elem) typed sub-views write elements of the right width; (ssz.descriptor) the descriptor the indices refer to is the struct's schema.",
		"that ztyp's persistent tree keeps copies independent (trusted); independence of EpochsContext clones is decided under C08 rules; value-level getter/setter round trips.",
		"view.index", "view.iota", "view.raw", "view.build", "view.elem", "lit.copy", "ssz.descriptor")

	prop("C09",
		"(idx.units) every weight / best-child / best-descendant update and every delta addresses the node it means: absolute NodeIndex values are never used as positions in the live window, offset subtractions are guarded against pruned nodes, stored links are absolute; parent links to pruned nodes are skipped; (args.order) justified/finalized checkpoints and epochs are not passed crosswise through the wrapper layers; (lock.held/lock.reentry) the wrapper holds its lock around every graph/vote access and never re-enters it.",
		"that the maintained weights and links select the LMD-GHOST winner over histories; vote replacement rules in the vote store; viability filtering semantics.",
		"idx.units", "score.flow", "args.order@forkchoice.|proto.|fctest.", "lock.held@forkchoice.", "lock.reentry@forkchoice.")
	prop("C10",
		"(lock.reentry) no path of UpdateJustified/updateJustified re-acquires the wrapper mutex, so the call returns; (args.order) the checkpoint pair is passed in the callee's parameter order; (prune.together) OnPrune notifies the sink for the node at each loop position with the flag of that same node, updates nodes/indices/indexOffset together per pruned node, prunes without a sink, and does not delete the anchor's own block-slot entry; (loop.stuck) no loop indexes with a counter that never advances; (idx.units) operations after a prune skip links to pruned parents and use relative positions.",
		"that exactly the non-descendants of the finalized node are dropped (the implementation prunes by insertion order - a design choice, see DESIGN.md); head-stays-in-finalized-subtree; refusal of conflicting checkpoints beyond the structural calls.",
		"lock.reentry@forkchoice.", "args.order@forkchoice.|proto.|fctest.", "prune.together", "loop.stuck", "idx.units")
	prop("C11",
		"(idx.units) every query path (CanonicalChain, CanonAtSlot, Search, InSubtree/inSubtree, FindHead) reaches nodes through offset-corrected, guarded positions; (index.guard) getNode refuses index == len.",
		"agreement of each query with a reference walk of the inserted tree; the best-descendant shortcut's validity for all tree shapes.",
		"idx.units", "index.guard")
	prop("C16",
		"(cache.parent) every answer taken from a parent cache is confined to the trusted prefix (argument test for index-keyed, result test for key-keyed lookups), so a handle never reports an entry that exists only on a sibling history; (cache.recursion) AddValidator recurses only into a fresh child{parent: receiver, trustedParentCount: conflicting index}, the parent chain is acyclic, the append is preceded by the next-index check, the no-op returns the receiver; (cache.deposit) deposit processing guards hits with the state's validator count and keeps the returned handle.",
		"exactness of lookups over arbitrary fork trees of histories; concurrent use (C17).",
		"cache.parent", "cache.recursion", "cache.units", "cache.deposit")
	prop("C17",
		"(lock.held) for the seven mutex-carrying types (fork-choice wrapper, pubkey cache, four operation pools, sync-committee pool) every exported method holds the mutex at every access of mutable state on every path, with write mode for writes and mutating calls, helpers that need the lock are only called under it, and every acquisition is released; (lock.reentry) no same-receiver re-acquisition on any call path; (lock.atomic) check-then-act across separate critical sections; (lazy.init) unsynchronised lazy stores on values handed out by shared containers.",
		"linearizability of results; races inside ztyp/BLS; fairness. Two recorded findings remain (PubkeyCache.AddValidator check-then-act, CachedPubkey lazy decompression).",
		"lock.held", "lock.reentry", "lock.atomic", "lazy.init")
	prop("C20",
		"(map.init) every map field that a pool method index-assigns is allocated by the constructor; (nil.maplookup) pointers from map lookups are nil/ok-tested before dereference; (lock.held) pool methods hold the pool lock around index access.",
		"that returned items are exactly what was added over histories; aggregate OR-ing of participants; pruning exactness.",
		"map.init@pool.", "nil.maplookup@pool.", "lock.held@pool.", "pool.keys")

	prop("C01",
		"(pipe.stages) each fork's ProcessBlock runs exactly the spec's sub-transitions for that fork, in that fork's variant, on every success path, with non-commuting stages in spec order; (slots.order) StateTransition verifies the proposer signature before and the state root after ProcessBlock; (fork.settings) fork-dependent penalties/shares read the fork's own preset fields; (limits.first) per-block operation limits equal the SSZ limits; (exitqueue.reset) exit-queue computation resets its churn count; (engine.verdict) the payload header is stored only after the engine approved; (err.flow) no error on the block path is dropped (a dropped error = a rejected block accepted); (args.order) no permuted same-typed arguments; (view.elem/view.index) every state field the pipeline touches is addressed and typed correctly; (cache.deposit) deposits keep the pubkey cache in step.",
		"any arithmetic (rewards, penalties, churn values, withdrawal sweep), comparison operators inside each check, and equality of the post-state with the Python spec on reachable states.",
		"pipe.stages", "slots.order", "fork.settings", "limits.first", "exitqueue.reset", "engine.verdict", "err.flow", "args.order", "view.elem", "view.index", "cache.deposit")
	prop("C02",
		"(slots.order) the slot loop runs ProcessSlot, ProcessEpoch at epoch ends, SetSlot, RotateEpochs, UpgradeMaybe in that order once per slot; (pipe.stages) each fork's ProcessEpoch runs exactly the spec's epoch sub-transitions in the fork's variant with live-state dependencies ordered; (exitqueue.reset) the batched exit queue of registry updates counts churn per epoch; (fork.registry) upgrades trigger at their own fork epoch, in order, and write the right Fork; (view.build)/(lit.copy) upgrades carry every pre-state field into the same-named post field; (epc.upkeep) sync committees are loaded on the altair upgrade and rotated on the next-epoch period test; (ctx.poll)/(err.flow) failures surface.",
		"justification/finality and reward arithmetic, hysteresis thresholds, leak dynamics, churn values.",
		"slots.order", "pipe.stages", "exitqueue.reset", "fork.registry", "view.build", "lit.copy", "epc.upkeep", "ctx.poll", "err.flow")
	prop("C03",
		"(err.flow) every error produced on the transition path is propagated or ends the path with a refusal; values are not dereferenced before their error is examined; (bls.verify) every signature check covers the whole signing root, under the spec's domain for that message type and fork-version class, and a false result refuses; (limits.first) operation counts are bounded; (merkle.bound) the deposit proof is bounded, checked, and precedes the index increment; (slots.order) target-slot guard, signature and state-root checks; (nil.maplookup/index.guard/map.init) the three exact panic shapes; (ssz.coll) decode limits are the type's limits; (fork.chain) the version used for the envelope signature is the slot's.",
		"that each individual comparison is the spec's comparison (< vs <=, which field): a semantic fact about a boolean expression, left to other technique families; explicit panic() calls guarded by invariants are listed, not judged.",
		"err.flow", "bls.verify", "limits.first", "merkle.bound", "slots.order", "nil.maplookup", "index.guard", "map.init", "ssz.coll", "fork.chain", "adjacent.pairs")
	prop("C06",
		"(shuffle.perm) permutation clause: the whole-list routine writes its input only through two-element swaps of the list's own elements, so its output is a permutation of the input for every seed, size and round count; wiring clause: forward/inverse entry points differ only in the direction flag, the round counter runs 0..rounds-1 forwards and rounds-1..0 backwards with rounds == 0 short-circuited, the two mirrored pair loops are identical, and the epoch shuffling is an element-wise copy un-shuffled with SHUFFLE_ROUND_COUNT.",
		"that the permutation is the spec's swap-or-not permutation (pivot, hash-bit selection at 256/8 boundaries) and that forward and inverse are mutually inverse for all sizes: both are numeric facts about hash-derived bits.",
		"shuffle.perm")
	prop("C07",
		"(committee.partition) committees are consecutive reslices [n*k/count, n*(k+1)/count) of one permutation over the full slot x index product, hence a partition of the active set; committee count follows the spec formula with clamp and floor; proposer and sync-committee sampling share the spec's acceptance test and permuted-index call; (seed.domain) each consumer seeds with the spec's domain; (shuffle.perm) the sliced list is a permutation of the active indices.",
		"equality of the assignment with the spec's for given randao/balances (numeric).",
		"committee.partition", "seed.domain", "shuffle.perm", "epoch.pairing")
	prop("C08",
		"(epc.coverage) every field the from-scratch constructor computes is refreshed by RotateEpochs, and the genesis context computes the phase0 subset; (epc.upkeep) rotation shifts previous<-current<-next, computes next for current+1, sync committees follow the period test and are loaded on the altair upgrade; (slots.order) rotation happens after SetSlot at epoch ends; (cache.deposit) the pubkey cache grows with each new validator and the returned handle is kept; (epc.shared) shared sub-structures are never written after construction, so a cloned context is independent.",
		"value equality of the incremental and the from-scratch context along histories.",
		"epc.coverage", "epc.upkeep", "epc.shared", "assert.reach", "slots.order", "cache.deposit")
	prop("C12",
		"(gossip.mark) seen-caches are marked only where nothing but ACCEPT can follow, and every ACCEPT passes the mark of each key the validator consults; (gossip.verdict) every refusal carries the verdict class of its governing outcome (timing/availability => IGNORE, validity => REJECT), no refusal branch accepts, ACCEPT is the final unconditional return; (bls.verify) the ten verification sites the validators reach check the whole root under the spec's domain; (err.flow) a swallowed error cannot fall through to ACCEPT; (args.order).",
		"completeness of each validator against the p2p spec's full condition list beyond the tabled outcomes; exact clock-window arithmetic.",
		"gossip.mark", "gossip.verdict", "loop.exists", "bls.verify", "err.flow@gossipval.|phase0.|altair.|common.", "args.order@gossipval.")
	prop("C13",
		"(genesis.init) GenesisFromEth1 performs the spec's initialisation steps with the spec's arguments on every success path, updates the deposit-tree root before each deposit, rounds/caps effective balances and activates at MAX_EFFECTIVE_BALANCE, takes the validators root after activation, loads the context, and only the kick-start helpers skip signatures/proofs; IsValidGenesisState compares with the two spec constants; (cache.deposit)(merkle.bound)(bls.verify)(err.flow) the shared ProcessDeposit obligations incl. the three spec-mandated forgiven errors; (epc.coverage) the genesis context is complete; (config.values) genesis constants are the spec's.",
		"field-for-field equality with the spec's genesis state for all deposit lists.",
		"genesis.init", "cache.deposit", "merkle.bound", "bls.verify@phase0.ProcessDeposit", "err.flow@phase0.", "epc.coverage", "config.values")
	prop("C18",
		"(ctx.poll) each of the context polls is tested and its error returned on that branch; (err.flow) every frame between a poll / engine call and ProcessSlots/StateTransition propagates the error; (engine.verdict) each engine answer (error, invalid) becomes an error before the payload header is stored, in the spec's call order, and the engine is shown the block's payload, the versioned hashes of its commitments in order and the latest header's parent root; (slots.order) the slot loop returns each stage's error.",
		"'identical to an undisturbed run when nothing fails' beyond the structural fact that polls have no side effects (ctx is used only for Err() and forwarding - advisory list in evidence).",
		"ctx.poll", "err.flow", "engine.verdict", "slots.order")
}
