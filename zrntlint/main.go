package main

import (
	"encoding/json"
	"flag"
	"fmt"
	"os"
	"path/filepath"
	"sort"
	"strconv"
	"strings"
	"time"
)

// Property describes which rules decide which clauses of a property.
type Property struct {
	ID         string
	Rules      []string
	Decided    string // clauses the rules decide
	NotDecided string // remainder, stated verbatim in the evidence
}

var properties = map[string]*Property{}

func prop(id string, decided, notDecided string, rules ...string) {
	properties[id] = &Property{ID: id, Rules: rules, Decided: decided, NotDecided: notDecided}
}

// undecidedConstructs: the number of distinct constructs (the part of the key before the first ':', '[' or '#': the
// function, mostly) among the undecided obligations.
func undecidedConstructs(obl []Oblig) int {
	seen := map[string]bool{}
	for _, o := range obl {
		if o.Status != Unmodelled {
			continue
		}
		k := strings.TrimPrefix(o.Key, o.Rule+":")
		if i := strings.IndexAny(k, ":[#"); i > 0 {
			k = k[:i]
		}
		seen[k] = true
	}
	return len(seen)
}

// smallFloor: rules that know of at most this many constructs report a shortfall as an undecided instance, not as an
// error of the checker (see cmdCheck).
const smallFloor = 12

func main() {
	if len(os.Args) < 2 {
		usage()
	}
	switch os.Args[1] {
	case "check":
		os.Exit(cmdCheck(os.Args[2:]))
	case "run":
		os.Exit(cmdRun(os.Args[2:]))
	case "mutants":
		os.Exit(cmdMutants(os.Args[2:]))
	case "seeded":
		os.Exit(cmdSeeded(os.Args[2:]))
	case "benign":
		os.Exit(cmdBenign(os.Args[2:]))
	case "rules":
		// the rule index (name, floor, what it decides), for DESIGN.md §10.15
		for _, r := range sortedKeys(rules) {
			fmt.Printf("- `%s` (floor %d): %s\n", r, rules[r].Floor, rules[r].Doc)
		}
		os.Exit(0)
	case "list":
		used := map[string]bool{}
		for _, id := range sortedKeys(properties) {
			fmt.Printf("%s: %s\n", id, strings.Join(properties[id].Rules, " "))
			for _, r := range properties[id].Rules {
				if i := strings.Index(r, "@"); i >= 0 {
					r = r[:i]
				}
				used[r] = true
			}
		}
		for _, r := range sortedKeys(rules) {
			if !used[r] {
				fmt.Printf("UNREFERENCED rule (serves no property): %s\n", r)
			}
		}
		os.Exit(0)
	default:
		usage()
	}
}

func usage() {
	fmt.Fprintln(os.Stderr, "usage: zrntlint check -property Cxx -tier quick|thorough [-repo /repo] [-verif /verif]\n"+
		"       zrntlint run -rules a,b [-repo /repo] [-v]\n"+
		"       zrntlint mutants [-rules a,b] [-repo /repo] [-j N]")
	os.Exit(2)
}

// cmdRun runs a set of rules and prints every obligation (debugging / triage).
func cmdRun(args []string) int {
	fs := flag.NewFlagSet("run", flag.ExitOnError)
	rs := fs.String("rules", "", "comma separated rule names (default all)")
	repo := fs.String("repo", "/repo", "")
	verbose := fs.Bool("v", false, "print ok obligations too")
	tests := fs.Bool("tests", false, "load test packages too")
	patch := fs.String("patch", "", "apply this unified diff through the overlay first (triage of a change)")
	fs.Parse(args)
	var ov map[string][]byte
	if *patch != "" {
		b, err := os.ReadFile(*patch)
		if err != nil {
			fmt.Println("ERROR", err)
			return 2
		}
		if ov, err = applyUnifiedDiff(*repo, string(b)); err != nil {
			fmt.Println("ERROR", err)
			return 2
		}
	}
	p, err := load(loadOpts{repo: *repo, tests: *tests, overlay: ov})
	if err != nil {
		fmt.Println("ERROR", err)
		return 2
	}
	names := sortedKeys(rules)
	if *rs != "" {
		names = strings.Split(*rs, ",")
	}
	if *verbose {
		fmt.Printf("LOAD packages=%d files=%d functions=%d; normalised at load: tagless switches=%d table loops=%d branch clamps=%d min/max tests split=%d flags turned=%d\n", len(p.Pkgs), p.Files, p.Funcs, p.Desugared, p.Unrolled, p.Clamps, p.SplitCmps, p.Flags)
	}
	rc := 0
	for _, n := range names {
		r := rules[n]
		if r == nil {
			fmt.Println("ERROR unknown rule", n)
			return 2
		}
		res := runRule(p, r)
		cnt := map[string]int{}
		for _, o := range res.Obligs {
			cnt[o.Status]++
			if *verbose || o.Status != OK {
				fmt.Printf("  %-10s %s  %s  %s\n", o.Status, o.Key, o.Pos, o.Detail)
			}
		}
		fmt.Printf("RULE %-18s obligations=%d ok=%d violation=%d unmodelled=%d info=%d floor=%d wall=%.2fs %s\n", n,
			len(res.Obligs)-cnt[Info], cnt[OK], cnt[Violation], cnt[Unmodelled], cnt[Info], r.Floor, res.Wall, res.Err)
		if res.Err != "" {
			rc = 2
		} else if cnt[Violation] > 0 && rc == 0 {
			rc = 1
		}
	}
	return rc
}

type ruleEvidence struct {
	Rule        string         `json:"rule"`
	Applied     string         `json:"rule_applied"`
	Obligations int            `json:"obligations"`
	Discharged  int            `json:"discharged"`
	Violations  int            `json:"violations"`
	Unmodelled  int            `json:"unmodelled"`
	Floor       int            `json:"floor"`
	Stats       map[string]int `json:"analysed,omitempty"`
	WallS       float64        `json:"wall_s"`
}

func cmdCheck(args []string) int {
	fs := flag.NewFlagSet("check", flag.ExitOnError)
	pid := fs.String("property", "", "")
	tier := fs.String("tier", "quick", "")
	repo := fs.String("repo", "/repo", "")
	verif := fs.String("verif", "/verif", "")
	fs.Parse(args)
	t0 := time.Now()
	pr := properties[*pid]
	if pr == nil {
		fmt.Printf("ERROR property=%s reason=unknown property\n", *pid)
		return 2
	}
	if *tier != "quick" && *tier != "thorough" {
		fmt.Printf("ERROR property=%s reason=bad tier\n", *pid)
		return 2
	}
	seed := 0
	if s := os.Getenv("VERIF_SEED"); s != "" {
		seed, _ = strconv.Atoi(s)
	}
	evPath := filepath.Join(*verif, "evidence", *pid+".json")
	violPath := filepath.Join(*verif, "evidence", *pid+".violations.json")
	os.MkdirAll(filepath.Dir(evPath), 0o755)
	os.Remove(violPath)

	fail := func(reason string) int {
		fmt.Printf("ERROR property=%s reason=%s\n", *pid, reason)
		writeEvidence(evPath, *pid, *tier, seed, map[string]any{
			"explanation": "check could not stand behind a verdict: " + reason,
			"error":       reason,
		}, nil, time.Since(t0).Seconds(), -1)
		return 2
	}

	known, err := loadKnown(filepath.Join(*verif, "known_findings.json"))
	if err != nil {
		return fail("known_findings.json: " + err.Error())
	}
	p, err := load(loadOpts{repo: *repo, tests: *tier == "thorough"})
	if err != nil {
		return fail(err.Error())
	}

	var all []Oblig
	var revs []ruleEvidence
	var errs []string
	for _, rspec := range pr.Rules {
		rn, scope := rspec, ""
		if i := strings.Index(rspec, "@"); i >= 0 {
			rn, scope = rspec[:i], rspec[i+1:]
		}
		r := rules[rn]
		if r == nil {
			return fail("rule not registered: " + rn)
		}
		res := runRule(p, r)
		if scope != "" {
			// restrict the rule's obligations to the constructs this property is about
			var kept []Oblig
			for _, o := range res.Obligs {
				body := strings.TrimPrefix(o.Key, rn+":")
				for _, pre := range strings.Split(scope, "|") {
					if strings.HasPrefix(body, pre) {
						kept = append(kept, o)
						break
					}
				}
			}
			res.Obligs = kept
		}
		re := ruleEvidence{Rule: rspec, Applied: r.Doc, Floor: r.Floor, Stats: res.Stats, WallS: round2(res.Wall)}
		for _, o := range res.Obligs {
			switch o.Status {
			case OK:
				re.Obligations++
				re.Discharged++
			case Violation:
				re.Obligations++
				re.Violations++
			case Unmodelled:
				re.Obligations++
				re.Unmodelled++
			}
		}
		if res.Err != "" {
			errs = append(errs, rn+": "+res.Err)
		}
		if scope == "" && re.Obligations < r.Floor || scope != "" && re.Obligations == 0 {
			if r.Floor <= smallFloor && re.Unmodelled > 0 {
				// the shortfall is the instance already reported as undecided (its parts are not looked at)
			} else if r.Floor <= smallFloor {
				// a rule about a handful of constructs that finds fewer of them than it knows of has not gone blind:
				// one of its constructs is written in a way it does not read. That is one undecided instance.
				re.Obligations++
				re.Unmodelled++
				res.Obligs = append(res.Obligs, Oblig{Rule: rn, Key: rn + ":floor", Status: Unmodelled, Detail: fmt.Sprintf("%d instances found where at least %d are known: a construct of this rule is written in a form it does not read", re.Obligations-1, r.Floor)})
			} else {
				errs = append(errs, fmt.Sprintf("%s: vacuity guard: %d obligations < floor %d (rule has gone blind?)", rn, re.Obligations, r.Floor))
			}
		}
		// (a single undecided construct is reported and tolerated; two or more must stay within one in ten. Several
		// undecided instances in ONE function — a function rewritten wholesale — are one construct not read.)
		if re.Obligations > 0 && undecidedConstructs(res.Obligs) >= 2 && re.Unmodelled*10 > re.Obligations {
			errs = append(errs, fmt.Sprintf("%s: %d of %d instances unmodelled (>10%%)", rn, re.Unmodelled, re.Obligations))
		}
		revs = append(revs, re)
		all = append(all, res.Obligs...)
	}
	if len(errs) > 0 {
		return fail(strings.Join(errs, " | "))
	}

	// thorough: cross-check call-graph based rules etc. is done inside rules through p; the mutant corpus
	// is a measurement of the checker and is run by `zrntlint mutants` (its result is added to evidence, never to the verdict).
	var mutantSummary, seededSummary, benignSummary map[string]any
	if *tier == "thorough" {
		mutantSummary = runMutantsForRules(*repo, pr.Rules)
		seededSummary = runSeededForProperty(*repo, *verif, *pid)
		benignSummary = runBenignForThorough(*repo, *verif, pr.Rules)
	}

	knownSet := map[string]KnownFinding{}
	for _, k := range known.Known {
		if k.Property == *pid {
			knownSet[k.Key] = k
		}
	}
	var newViol, knownViol, unmod []Oblig
	nObl, nDis := 0, 0
	for _, o := range all {
		switch o.Status {
		case OK:
			nObl++
			nDis++
		case Unmodelled:
			nObl++
			unmod = append(unmod, o)
		case Violation:
			nObl++
			if _, ok := knownSet[o.Key]; ok {
				knownViol = append(knownViol, o)
			} else {
				newViol = append(newViol, o)
			}
		}
	}
	for _, o := range knownViol {
		fmt.Printf("KNOWN-FINDING: property=%s %s %s — %s\n", *pid, o.Key, o.Pos, knownSet[o.Key].What)
	}
	// known findings that no longer reproduce are reported (informational): the entry may be stale.
	seenKey := map[string]bool{}
	for _, o := range knownViol {
		seenKey[o.Key] = true
	}
	for _, k := range sortedKeys(knownSet) {
		if !seenKey[k] {
			fmt.Printf("NOTE: property=%s listed finding %s was not reproduced on this tree\n", *pid, k)
		}
	}
	for _, o := range newViol {
		fmt.Printf("FINDING property=%s rule=%s key=%s at=%s: %s\n", *pid, o.Rule, o.Key, o.Pos, o.Detail)
	}

	// samples: a handful of actual obligations (every violation, then ok ones spread across rules)
	var samples []any
	for _, o := range newViol {
		samples = append(samples, o)
	}
	for _, o := range knownViol {
		if len(samples) < 12 {
			samples = append(samples, o)
		}
	}
	perRule := map[string]int{}
	for _, o := range all {
		if o.Status == OK && perRule[o.Rule] < 3 && len(samples) < 40 {
			perRule[o.Rule]++
			samples = append(samples, o)
		}
	}
	var infos []Oblig
	for _, o := range all {
		if o.Status == Info {
			infos = append(infos, o)
		}
	}
	pkgNames := []string{}
	for _, pk := range p.Pkgs {
		pkgNames = append(pkgNames, strings.TrimPrefix(pk.ID, modPath+"/"))
	}
	cov := map[string]any{
		"explanation": "Static analysis of /repo's current source (go/packages + go/types" +
			", go/cfg, go/ssa, VTA call graph where a rule needs them); nothing is executed. DECIDED: " + pr.Decided +
			" NOT DECIDED (outside what a static shape argument can reach; not approximated by running code): " + pr.NotDecided,
		"obligations":        nObl,
		"discharged":         nDis,
		"unmodelled":         len(unmod),
		"unmodelled_list":    unmod,
		"violations_new":     len(newViol),
		"violations_known":   len(knownViol),
		"exhaustive":         true,
		"rules":              revs,
		"samples":            samples,
		"advisory":           infos,
		"packages_analysed":  len(p.Pkgs),
		"package_list":       pkgNames,
		"files_analysed":     p.Files,
		"functions_parsed":   p.Funcs,
		"normalised_at_load": map[string]int{"tagless_switches_as_if_chains": p.Desugared, "table_loops_unrolled": p.Unrolled, "branch_clamps_as_min_max": p.Clamps, "min_max_tests_split": p.SplitCmps, "disjunctive_flags_negated": p.Flags},
		"checker_cmd":        fmt.Sprintf("/verif/check %s %s", *pid, *tier),
		"trusted_base": []string{"Go parser and type checker (go/types)", "golang.org/x/tools v0.29.0 (go/packages, go/cfg, go/ssa, callgraph/vta)",
			"gopkg.in/yaml.v3", "ztyp codec/view/tree semantics", "bls12-381-util", "frozen tables transcribed from consensus-specs v1.5.0-beta.2 inside the checker"},
	}
	if p.SSA != nil {
		cov["ssa_built"] = true
	}
	if mutantSummary != nil {
		cov["mutant_corpus"] = mutantSummary
	}
	if seededSummary != nil {
		cov["seeded_corpus"] = seededSummary
	}
	if benignSummary != nil {
		cov["benign_corpus"] = benignSummary
	}
	assumptions := []string{
		"Level 'other': what is decided is a set of structural necessary conditions of the property, exhaustively over the loaded program; the behavioural property itself is not proven.",
		"Dependencies outside /repo (ztyp, BLS, sha256) behave as documented.",
		"Alias tracking is intraprocedural (AST/SSA def-use plus receiver-field tracking); a store through an alias passed across two calls is not followed.",
	}
	writeEvidence(evPath, *pid, *tier, seed, cov, assumptions, time.Since(t0).Seconds(), len(newViol))

	if len(newViol) > 0 {
		b, _ := json.MarshalIndent(map[string]any{"property": *pid, "violations": newViol,
			"replay": fmt.Sprintf("/verif/check %s %s  (re-analyses the tree; each entry names rule, construct and file:line)", *pid, *tier)}, "", " ")
		os.WriteFile(violPath, b, 0o644)
		fmt.Printf("VIOLATION property=%s replay=%s\n", *pid, violPath)
		return 1
	}
	fmt.Printf("OK property=%s tier=%s obligations=%d discharged=%d known_findings=%d unmodelled=%d wall=%.1fs\n",
		*pid, *tier, nObl, nDis, len(knownViol), len(unmod), time.Since(t0).Seconds())
	return 0
}

func round2(f float64) float64 { return float64(int(f*100+0.5)) / 100 }

func writeEvidence(path, pid, tier string, seed int, cov map[string]any, assumptions []string, wall float64, viol int) {
	if _, ok := cov["explanation"]; !ok {
		cov["explanation"] = "n/a"
	}
	ev := map[string]any{
		"property_id": pid,
		"tier":        tier,
		"seed":        seed,
		"level":       "other",
		"coverage":    cov,
		"assumptions": nonNil(assumptions),
		"wall_s":      round2(wall),
		"violations":  viol,
	}
	b, _ := json.MarshalIndent(ev, "", " ")
	tmp := path + ".tmp"
	os.WriteFile(tmp, b, 0o644)
	os.Rename(tmp, path)
}

func init() {
	_ = sort.Strings
}

func nonNil(s []string) []string {
	if s == nil {
		return []string{}
	}
	return s
}
