package main

import (
	"go/ast"
	"go/token"
	"go/types"
	"sort"
	"strings"

	"golang.org/x/tools/go/cfg"
	"golang.org/x/tools/go/packages"
)

func init() {
	register(&Rule{Name: "pipe.stages", Floor: 100,
		Doc: "for each fork's ProcessBlock and ProcessEpoch, every path to a success return passes through exactly the spec's sub-transitions for that fork, in that fork's variant (resolved callee), with no foreign stage; stages that do not commute in this code base run in the spec's order (dependency table in DESIGN.md §9). A stage called from an unexported helper counts at the helper's call site, on every path only if the helper runs it on every one of its own success paths",
		Run: rulePipeStages})
	register(&Rule{Name: "slots.order", Floor: 8,
		Doc: "ProcessSlots: ProcessSlot, then ProcessEpoch iff at an epoch end, then SetSlot, then RotateEpochs iff at an epoch end, then UpgradeMaybe, each once on every path of a round (in every frame when the round, or part of it, lives in a helper; one call in each branch of an if/else is one call per path) and the counter of the loop test moving up by exactly one per round; the target-slot guard precedes the loop; PostSlotTransition: signature check before ProcessBlock (under validateResult) and state-root comparison after it with != leading to an error",
		Run: ruleSlotsOrder})
	register(&Rule{Name: "engine.verdict", Floor: 12,
		Doc: "VerifyAndNotifyNewPayload consults the engine in the order block hash, versioned hashes, notify; decided on the control-flow graph: with an engine error in hand every path returns it, with an answer taken to be `false` every path returns false and none reaches the next engine query; ProcessExecutionPayload: with the engine's error in hand every path returns it, with the verdict taken to be `invalid` every path returns an error and none reaches the store of the payload header, which comes after the consultation; the request carries the block's payload, the versioned hashes of its commitments in order and the parent root of the latest block header",
		Run: ruleEngineVerdict})
	register(&Rule{Name: "limits.first", Floor: 30,
		Doc: "each fork's CheckLimits bounds every list-typed body field by that field's own SSZ limit (the limit its Deserialize enforces), with the spec-mandated exception for blob commitments, and ProcessBlock calls it before the first operation stage; the (count, limit) pairs are collected from direct comparisons, from calls of an unexported check(what, count, limit) helper and from the rows of a local table walked by a loop",
		Run: ruleLimitsFirst})
	register(&Rule{Name: "merkle.bound", Floor: 3,
		Doc: "every VerifyMerkleBranch call passes the full slice of an array at least `depth` long with a constant depth, its false result returns an error, and in ProcessDeposit it precedes IncrementDepositIndex",
		Run: ruleMerkleBound})
	register(&Rule{Name: "fork.settings", Floor: 10,
		Doc: "each fork's ForkSettings reads the preset fields carrying that fork's suffix (phase0: none, altair: _ALTAIR, bellatrix and later: _BELLATRIX) and its proposer-share closure is the phase0 quotient form or the altair weight form",
		Run: ruleForkSettings})
}

// Stage tables (consensus-specs v1.5.0-beta.2 process_block / process_epoch, in zrnt's resolved callee names).
var blockStages = map[string][]string{
	"phase0":    {"common.ProcessHeader", "phase0.ProcessRandaoReveal", "phase0.ProcessEth1Vote", "CheckLimits", "phase0.ProcessProposerSlashings", "phase0.ProcessAttesterSlashings", "phase0.ProcessAttestations", "phase0.ProcessDeposits", "phase0.ProcessVoluntaryExits"},
	"altair":    {"common.ProcessHeader", "phase0.ProcessRandaoReveal", "phase0.ProcessEth1Vote", "CheckLimits", "phase0.ProcessProposerSlashings", "phase0.ProcessAttesterSlashings", "altair.ProcessAttestations", "phase0.ProcessDeposits", "phase0.ProcessVoluntaryExits", "altair.ProcessSyncAggregate"},
	"bellatrix": {"common.ProcessHeader", "?bellatrix.ProcessExecutionPayload", "phase0.ProcessRandaoReveal", "phase0.ProcessEth1Vote", "CheckLimits", "phase0.ProcessProposerSlashings", "phase0.ProcessAttesterSlashings", "altair.ProcessAttestations", "phase0.ProcessDeposits", "phase0.ProcessVoluntaryExits", "altair.ProcessSyncAggregate"},
	"capella":   {"common.ProcessHeader", "capella.ProcessWithdrawals", "capella.ProcessExecutionPayload", "phase0.ProcessRandaoReveal", "phase0.ProcessEth1Vote", "CheckLimits", "phase0.ProcessProposerSlashings", "phase0.ProcessAttesterSlashings", "altair.ProcessAttestations", "phase0.ProcessDeposits", "phase0.ProcessVoluntaryExits", "capella.ProcessBLSToExecutionChanges", "altair.ProcessSyncAggregate"},
	"deneb":     {"common.ProcessHeader", "capella.ProcessWithdrawals", "deneb.ProcessExecutionPayload", "phase0.ProcessRandaoReveal", "phase0.ProcessEth1Vote", "CheckLimits", "phase0.ProcessProposerSlashings", "phase0.ProcessAttesterSlashings", "deneb.ProcessAttestations", "phase0.ProcessDeposits", "deneb.ProcessVoluntaryExits", "capella.ProcessBLSToExecutionChanges", "altair.ProcessSyncAggregate"},
}

var epochStages = map[string][]string{
	"phase0":    {"phase0.ComputeEpochAttesterData", "phase0.ProcessEpochJustification", "phase0.ProcessEpochRewardsAndPenalties", "phase0.ProcessEpochRegistryUpdates", "phase0.ProcessEpochSlashings", "phase0.ProcessEth1DataReset", "phase0.ProcessEffectiveBalanceUpdates", "phase0.ProcessSlashingsReset", "phase0.ProcessRandaoMixesReset", "phase0.ProcessHistoricalRootsUpdate", "phase0.ProcessParticipationRecordUpdates"},
	"altair":    {"altair.ComputeEpochAttesterData", "phase0.ProcessEpochJustification", "altair.ProcessInactivityUpdates", "altair.ProcessEpochRewardsAndPenalties", "phase0.ProcessEpochRegistryUpdates", "phase0.ProcessEpochSlashings", "phase0.ProcessEth1DataReset", "phase0.ProcessEffectiveBalanceUpdates", "phase0.ProcessSlashingsReset", "phase0.ProcessRandaoMixesReset", "phase0.ProcessHistoricalRootsUpdate", "altair.ProcessParticipationFlagUpdates", "altair.ProcessSyncCommitteeUpdates"},
	"bellatrix": {"altair.ComputeEpochAttesterData", "phase0.ProcessEpochJustification", "altair.ProcessInactivityUpdates", "altair.ProcessEpochRewardsAndPenalties", "phase0.ProcessEpochRegistryUpdates", "phase0.ProcessEpochSlashings", "phase0.ProcessEth1DataReset", "phase0.ProcessEffectiveBalanceUpdates", "phase0.ProcessSlashingsReset", "phase0.ProcessRandaoMixesReset", "phase0.ProcessHistoricalRootsUpdate", "altair.ProcessParticipationFlagUpdates", "altair.ProcessSyncCommitteeUpdates"},
	"capella":   {"altair.ComputeEpochAttesterData", "phase0.ProcessEpochJustification", "altair.ProcessInactivityUpdates", "altair.ProcessEpochRewardsAndPenalties", "phase0.ProcessEpochRegistryUpdates", "phase0.ProcessEpochSlashings", "phase0.ProcessEth1DataReset", "phase0.ProcessEffectiveBalanceUpdates", "phase0.ProcessSlashingsReset", "phase0.ProcessRandaoMixesReset", "capella.ProcessHistoricalSummariesUpdate", "altair.ProcessParticipationFlagUpdates", "altair.ProcessSyncCommitteeUpdates"},
	"deneb":     {"altair.ComputeEpochAttesterData", "phase0.ProcessEpochJustification", "altair.ProcessInactivityUpdates", "altair.ProcessEpochRewardsAndPenalties", "deneb.ProcessEpochRegistryUpdates", "phase0.ProcessEpochSlashings", "phase0.ProcessEth1DataReset", "phase0.ProcessEffectiveBalanceUpdates", "phase0.ProcessSlashingsReset", "phase0.ProcessRandaoMixesReset", "capella.ProcessHistoricalSummariesUpdate", "altair.ProcessParticipationFlagUpdates", "altair.ProcessSyncCommitteeUpdates"},
}

// stage roles (short names) for the order tables
func stageRole(q string) string {
	n := q[strings.Index(q, ".")+1:]
	return n
}

// enforced order pairs by role name (each justified in DESIGN.md §9)
var blockOrder = [][2]string{
	{"ProcessHeader", "*"},
	{"ProcessWithdrawals", "ProcessExecutionPayload"},
	{"ProcessExecutionPayload", "ProcessRandaoReveal"},
	{"ProcessWithdrawals", "ProcessBLSToExecutionChanges"},
	{"CheckLimits", "ProcessProposerSlashings"},
	{"ProcessProposerSlashings", "ProcessAttesterSlashings"},
	{"ProcessAttesterSlashings", "ProcessAttestations"},
	{"ProcessAttestations", "ProcessDeposits"},
	{"ProcessDeposits", "ProcessSyncAggregate"},
	{"ProcessAttesterSlashings", "ProcessVoluntaryExits"},
	{"ProcessWithdrawals", "ProcessProposerSlashings"},
}
var epochOrder = [][2]string{
	{"ComputeEpochAttesterData", "ProcessEpochJustification"},
	{"ProcessEpochJustification", "ProcessInactivityUpdates"},
	{"ProcessEpochJustification", "ProcessEpochRewardsAndPenalties"},
	{"ProcessEpochJustification", "ProcessEpochRegistryUpdates"},
	{"ProcessInactivityUpdates", "ProcessEpochRewardsAndPenalties"},
	{"ProcessEpochRewardsAndPenalties", "ProcessEpochSlashings"},
	{"ProcessEpochSlashings", "ProcessEffectiveBalanceUpdates"},
	{"ProcessEpochSlashings", "ProcessSlashingsReset"},
	{"ProcessEffectiveBalanceUpdates", "ProcessSyncCommitteeUpdates"},
}

// callsIn maps qualified callee names to the CFG blocks (and node index) where they are called.
type callLoc struct {
	blk  *cfg.Block
	idx  int
	call *ast.CallExpr
	// for a call that lives in an unexported helper of the package and is read at the helper's call site:
	via  *ast.CallExpr // the call inside the helper (call is then the helper's call in the analysed function)
	rank int           // order among the calls lifted from that helper
	some bool          // the helper makes the call on some of its success paths only
}

// cfgCallsDeep is cfgCalls that also looks into the unexported functions and methods of the same package that the
// analysed function calls (two levels): a matching call found there is recorded at the helper's call site, marked
// `some` when the helper does not make it on every one of its own success paths. Moving part of a pipeline into a
// helper, or inlining it back, therefore changes nothing; a helper that runs a stage only sometimes is seen as such.
func cfgCallsDeep(p *Prog, pk *packages.Package, g *cfg.CFG, match func(q string, f *types.Func) bool, depth int) map[string][]callLoc {
	info := pk.TypesInfo
	out := cfgCalls(info, g, match)
	if depth >= 2 {
		return out
	}
	decl := map[*types.Func]*ast.FuncDecl{}
	p.funcDecls(func(p2 *packages.Package, fd *ast.FuncDecl) {
		if p2 == pk && fd.Body != nil {
			if f, ok := p2.TypesInfo.Defs[fd.Name].(*types.Func); ok {
				decl[f] = fd
			}
		}
	})
	for _, b := range g.Blocks {
		for i, n := range b.Nodes {
			ast.Inspect(n, func(m ast.Node) bool {
				if _, ok := m.(*ast.FuncLit); ok {
					return false
				}
				call, ok := m.(*ast.CallExpr)
				if !ok {
					return true
				}
				// a function literal called where it is written is a helper without a name
				var hbody *ast.BlockStmt
				var htype *ast.FuncType
				if lit, isLit := ast.Unparen(call.Fun).(*ast.FuncLit); isLit {
					hbody, htype = lit.Body, lit.Type
				} else {
					f := calleeFunc(info, call)
					if f == nil || f.Exported() || f.Pkg() != pk.Types {
						return true
					}
					hd := decl[f]
					if hd == nil {
						return true
					}
					q := f.Pkg().Name() + "." + f.Name()
					if match(q, f) {
						return true // a stage itself
					}
					hbody, htype = hd.Body, hd.Type
				}
				hd := struct {
					Body *ast.BlockStmt
					Type *ast.FuncType
				}{hbody, htype}
				hg := cfg.New(hd.Body, func(*ast.CallExpr) bool { return true })
				inner := cfgCallsDeep(p, pk, hg, match, depth+1)
				hsucc := successReturns(info, hg)
				if hd.Type.Results == nil {
					// no error result: every exit is a success
					for _, hb := range hg.Blocks {
						if hb.Live && len(hb.Succs) == 0 {
							hsucc = append(hsucc, hb)
						}
					}
				}
				type item struct {
					q string
					l callLoc
				}
				var items []item
				for iq, ls := range inner {
					for _, l := range ls {
						items = append(items, item{iq, l})
					}
				}
				sort.Slice(items, func(a, b int) bool {
					pa, pb := items[a].l.call.Pos(), items[b].l.call.Pos()
					if pa != pb {
						return pa < pb
					}
					return items[a].l.rank < items[b].l.rank
				})
				for k, it := range items {
					some := it.l.some || !cuts(hg, inner[it.q], hsucc)
					innerCall := it.l.call
					if it.l.via != nil {
						innerCall = it.l.via
					}
					out[it.q] = append(out[it.q], callLoc{blk: b, idx: i, call: call, via: innerCall, rank: k + 1, some: some})
				}
				return true
			})
		}
	}
	return out
}

func cfgCalls(info *types.Info, g *cfg.CFG, match func(q string, f *types.Func) bool) map[string][]callLoc {
	out := map[string][]callLoc{}
	for _, b := range g.Blocks {
		for i, n := range b.Nodes {
			ast.Inspect(n, func(m ast.Node) bool {
				if _, ok := m.(*ast.FuncLit); ok {
					return false
				}
				call, ok := m.(*ast.CallExpr)
				if !ok {
					return true
				}
				f := calleeFunc(info, call)
				if f == nil {
					return true
				}
				q := f.Name()
				if f.Pkg() != nil {
					q = f.Pkg().Name() + "." + f.Name()
				}
				if f.Name() == "CheckLimits" {
					q = "CheckLimits"
				}
				if match(q, f) {
					out[q] = append(out[q], callLoc{blk: b, idx: i, call: call})
				}
				return true
			})
		}
	}
	return out
}

// successBlocks: blocks ending in `return nil` / `return x, nil` / tail call return.
func successReturns(info *types.Info, g *cfg.CFG) []*cfg.Block {
	var out []*cfg.Block
	for _, b := range g.Blocks {
		if !b.Live || len(b.Nodes) == 0 {
			continue
		}
		r, ok := b.Nodes[len(b.Nodes)-1].(*ast.ReturnStmt)
		if !ok || len(r.Results) == 0 {
			continue
		}
		last := ast.Unparen(r.Results[len(r.Results)-1])
		if id, ok := last.(*ast.Ident); ok && id.Name == "nil" {
			out = append(out, b)
			continue
		}
		if call, ok := last.(*ast.CallExpr); ok && isErrorT(info.TypeOf(last)) {
			if f := calleeFunc(info, call); f != nil && isZrnt(f) {
				out = append(out, b) // return f(...): success path through f
			}
		}
	}
	return out
}

// nilOnSuccess (when set, with its type info): error variables that are nil all along a success path (a function
// written with one shared `err` and `if err == nil { err = step() }` guards returns that variable at the end): a test
// of such a variable against nil is followed on its nil side only.
var nilOnSuccess map[types.Object]bool
var nilOnSuccessInfo *types.Info

func reachable(from *cfg.Block, skip map[*cfg.Block]bool) map[*cfg.Block]bool {
	seen := map[*cfg.Block]bool{}
	nilSide := func(b *cfg.Block) int {
		if nilOnSuccess == nil || len(b.Succs) != 2 || len(b.Nodes) == 0 {
			return -1
		}
		e, ok := b.Nodes[len(b.Nodes)-1].(ast.Expr)
		if !ok {
			return -1
		}
		be, ok := ast.Unparen(e).(*ast.BinaryExpr)
		if !ok || (be.Op != token.EQL && be.Op != token.NEQ) {
			return -1
		}
		info := nilOnSuccessInfo
		isE := func(x ast.Expr) bool {
			id, ok := ast.Unparen(x).(*ast.Ident)
			return ok && nilOnSuccess[info.ObjectOf(id)]
		}
		if !(isE(be.X) && isNilExpr(info, be.Y)) && !(isE(be.Y) && isNilExpr(info, be.X)) {
			return -1
		}
		if be.Op == token.EQL {
			return 0
		}
		return 1
	}
	var walk func(b *cfg.Block)
	walk = func(b *cfg.Block) {
		if seen[b] || skip[b] {
			return
		}
		seen[b] = true
		if k := nilSide(b); k >= 0 {
			walk(b.Succs[k])
			return
		}
		for _, s := range b.Succs {
			walk(s)
		}
	}
	walk(from)
	return seen
}

// errVarReturns: the blocks that end in a return whose last result is an error variable, and those variables.
func errVarReturns(info *types.Info, g *cfg.CFG) ([]*cfg.Block, map[types.Object]bool) {
	var out []*cfg.Block
	objs := map[types.Object]bool{}
	for _, b := range g.Blocks {
		if !b.Live || len(b.Nodes) == 0 {
			continue
		}
		r, ok := b.Nodes[len(b.Nodes)-1].(*ast.ReturnStmt)
		if !ok || len(r.Results) == 0 {
			continue
		}
		id, ok := ast.Unparen(r.Results[len(r.Results)-1]).(*ast.Ident)
		if !ok {
			continue
		}
		if v, ok := info.ObjectOf(id).(*types.Var); ok && isErrorT(v.Type()) {
			out = append(out, b)
			objs[v] = true
		}
	}
	return out, objs
}

// cuts: removing the blocks of locs disconnects entry from every block in targets.
func cuts(g *cfg.CFG, locs []callLoc, targets []*cfg.Block) bool {
	if len(locs) == 0 {
		return false
	}
	skip := map[*cfg.Block]bool{}
	for _, l := range locs {
		skip[l.blk] = true
	}
	live := reachable(g.Blocks[0], skip)
	for _, t := range targets {
		if live[t] && !skip[t] {
			return false
		}
	}
	return true
}

func rulePipeStages(c *Ctx) {
	for _, kind := range []string{"ProcessBlock", "ProcessEpoch"} {
		table := blockStages
		order := blockOrder
		if kind == "ProcessEpoch" {
			table = epochStages
			order = epochOrder
		}
		for _, fork := range []string{"phase0", "altair", "bellatrix", "capella", "deneb"} {
			pk, fd := c.P.mustFunc("eth2/beacon/"+fork, "BeaconStateView."+kind)
			info := pk.TypesInfo
			g := cfg.New(fd.Body, func(*ast.CallExpr) bool { return true })
			isStage := func(q string, f *types.Func) bool {
				if !isZrnt(f) {
					return false
				}
				return q == "CheckLimits" || strings.HasPrefix(f.Name(), "Process") || f.Name() == "ComputeEpochAttesterData"
			}
			calls := cfgCallsDeep(c.P, pk, g, isStage, 0)
			succ := successReturns(info, g)
			// returns of an error variable end a success path when the variable is nil: with that assumed at every
			// test of it, the error exits are unreachable and `if err == nil { err = step() }` chains are straight lines
			ev, evObjs := errVarReturns(info, g)
			succ = append(succ, ev...)
			nilOnSuccess, nilOnSuccessInfo = evObjs, info
			defer func() { nilOnSuccess, nilOnSuccessInfo = nil, nil }()
			if len(succ) == 0 {
				anchorFail("%s.%s has no success return", fork, kind)
			}
			want := table[fork]
			wantSet := map[string]bool{}
			roleLocs := map[string][]callLoc{}
			for _, w := range want {
				optional := strings.HasPrefix(w, "?")
				w = strings.TrimPrefix(w, "?")
				wantSet[w] = true
				key := fork + "." + kind + "[" + w + "]"
				locs := calls[w]
				roleLocs[stageRole(w)] = locs
				switch {
				case len(locs) == 0:
					// a same-role stage of another fork?
					var other string
					for q := range calls {
						if stageRole(q) == stageRole(w) {
							other = q
						}
					}
					if other != "" {
						c.bad(key, calls[other][0].call.Pos(), "%s's %s runs %s; the spec's %s for this fork is %s", fork, kind, other, stageRole(w), w)
					} else {
						c.bad(key, fd.Pos(), "%s's %s never runs %s", fork, kind, w)
					}
				case len(locs) > 1:
					c.bad(key, locs[1].call.Pos(), "%s is run %d times", w, len(locs))
				case optional:
					// conditional stage (bellatrix payload iff execution enabled): must be guarded by IsExecutionEnabled
					guard := cfgCallsDeep(c.P, pk, g, func(q string, f *types.Func) bool { return f.Name() == "IsExecutionEnabled" }, 0)
					var gl []callLoc
					for _, l := range guard {
						gl = append(gl, l...)
					}
					// or is_execution_enabled written out: is_merge_transition_complete(state) asked on every path to
					// the stage, and is_merge_transition_block(state, body) asked as well
					var completed, block []callLoc
					for _, l := range cfgCallsDeep(c.P, pk, g, func(q string, f *types.Func) bool { return f.Name() == "IsTransitionCompleted" }, 0) {
						completed = append(completed, l...)
					}
					for _, l := range cfgCallsDeep(c.P, pk, g, func(q string, f *types.Func) bool { return f.Name() == "IsTransitionBlock" }, 0) {
						block = append(block, l...)
					}
					if cuts(g, gl, []*cfg.Block{locs[0].blk}) {
						c.ok(key, locs[0].call.Pos(), "runs iff IsExecutionEnabled")
					} else if len(block) > 0 && cuts(g, completed, []*cfg.Block{locs[0].blk}) {
						c.ok(key, locs[0].call.Pos(), "runs iff IsTransitionCompleted or IsTransitionBlock (is_execution_enabled written out)")
					} else {
						c.bad(key, locs[0].call.Pos(), "conditional stage %s is not governed by IsExecutionEnabled", w)
					}
				case !cuts(g, locs, succ) || locs[0].some:
					c.bad(key, locs[0].call.Pos(), "a path reaches a success return of %s without running %s", kind, w)
				default:
					c.ok(key, locs[0].call.Pos(), "on every success path, once")
				}
			}
			// foreign stages
			for _, q := range sortedKeys(calls) {
				if !wantSet[q] {
					role := stageRole(q)
					dup := false
					for w := range wantSet {
						if stageRole(w) == role {
							dup = true
						}
					}
					if dup {
						continue // already reported as wrong variant
					}
					c.bad(fork+"."+kind+"[+"+q+"]", calls[q][0].call.Pos(), "%s's %s runs %s, which is not a stage of this fork in the spec", fork, kind, q)
				}
			}
			// order pairs
			for _, pr := range order {
				a := roleLocs[pr[0]]
				if len(a) != 1 {
					continue
				}
				var bs []string
				if pr[1] == "*" {
					for r := range roleLocs {
						if r != pr[0] {
							bs = append(bs, r)
						}
					}
					sort.Strings(bs)
				} else {
					bs = []string{pr[1]}
				}
				for _, br := range bs {
					b := roleLocs[br]
					if len(b) != 1 {
						continue
					}
					key := fork + "." + kind + "[" + pr[0] + "<" + br + "]"
					// both stages are (separately) shown to lie on every success path (or to be the spec's conditional
					// stage); a precedes b iff no path leads from b to a
					before := false
					if a[0].blk == b[0].blk {
						before = a[0].idx < b[0].idx || (a[0].idx == b[0].idx && (a[0].call.Pos() < b[0].call.Pos() || (a[0].call == b[0].call && a[0].rank < b[0].rank)))
					} else {
						before = !reachable(b[0].blk, nil)[a[0].blk] && reachable(a[0].blk, nil)[b[0].blk]
					}
					if before {
						c.ok(key, b[0].call.Pos(), "%s precedes %s on every path", pr[0], br)
					} else {
						c.bad(key, b[0].call.Pos(), "%s can run before %s; in this code base the two do not commute (see DESIGN.md §9), the spec runs %s first", br, pr[0], pr[0])
					}
				}
			}
		}
	}
	// electra: declared unsupported
	for _, kind := range []string{"ProcessBlock", "ProcessEpoch"} {
		pk, fd := c.P.findFunc("eth2/beacon/electra", "BeaconStateView."+kind)
		if fd == nil {
			continue
		}
		if unconditionalError(pk, fd) {
			c.ok("electra."+kind, fd.Pos(), "declared unsupported: returns an error unconditionally")
		} else {
			c.unm("electra."+kind, fd.Pos(), "electra pipeline is no longer a stub; add its stage table")
		}
	}
}

func ruleSlotsOrder(c *Ctx) {
	pk, fd := c.P.mustFunc("eth2/beacon/common", "ProcessSlots")
	info := pk.TypesInfo
	// the loop
	var loop *ast.ForStmt
	for _, st := range fd.Body.List {
		if f, ok := st.(*ast.ForStmt); ok {
			loop = f
		}
	}
	if loop == nil {
		anchorFail("ProcessSlots: loop not found")
	}
	// guard before the loop: the target is refused exactly when the loop would not run (`current >= target`), in
	// any spelling: same cut as the loop condition, refusal on the side where the condition is false
	// the test that keeps the loop going: its condition, or for a bottom-tested `for { round; if done { return nil } }`
	// the negation of that exit test
	contCond, contNeg := loop.Cond, false
	if contCond == nil {
		for _, st := range loop.Body.List {
			is, ok := st.(*ast.IfStmt)
			if !ok || is.Else != nil || is.Init != nil || len(is.Body.List) != 1 {
				continue
			}
			switch x := is.Body.List[0].(type) {
			case *ast.ReturnStmt:
				if len(x.Results) == 0 || isNilExpr(info, x.Results[len(x.Results)-1]) {
					contCond, contNeg = is.Cond, true
				}
			case *ast.BranchStmt:
				if x.Tok == token.BREAK && x.Label == nil {
					contCond, contNeg = is.Cond, true
				}
			}
		}
	}
	if contCond == nil {
		anchorFail("ProcessSlots: the slot loop has no test")
	}
	guard := false
	// (a counter introduced by the loop itself, `for at := start; at < target; at++`, is its start value where the
	// guard stands)
	var initDefs map[types.Object]localDef
	if ia, ok := loop.Init.(*ast.AssignStmt); ok && ia.Tok == token.DEFINE && len(ia.Lhs) == len(ia.Rhs) {
		initDefs = map[types.Object]localDef{}
		for i, l := range ia.Lhs {
			if id, ok := l.(*ast.Ident); ok && info.Defs[id] != nil {
				initDefs[info.Defs[id]] = localDef{ia.Rhs[i], 0, 1}
			}
		}
	}
	if lc, lp, lop := condCutOf(info, contCond, initDefs); lc != "" {
		if contNeg {
			lop = negOp[lop]
		}
		contSide := cutSide(lp, lop)
		for _, st := range cmpsIn(pk, fd, "common.ProcessSlots", nil, nil, nil, nil) {
			if st.pos >= loop.Pos() || st.rop == 0 {
				continue
			}
			for _, q := range []Poly{st.p, st.pr} {
				if canonCut(q, st.op) == lc {
					if rs := cutSide(q, st.rop); rs != "" && rs != contSide {
						guard = true
					}
				}
			}
		}
	}
	if guard {
		c.ok("ProcessSlots.target-guard", fd.Pos(), "refuses a target slot <= current slot before doing any work")
	} else {
		c.bad("ProcessSlots.target-guard", fd.Pos(), "no `current >= target => error` guard before the slot loop (a non-increasing target must be refused)")
	}
	// The calls of one slot round, read with every same-package helper and local closure written out in place: each
	// with the chain of frames it sits in. "On every path": in each frame of the chain the call (or the call that leads
	// to it) lies on every path from the frame's entry to its normal completion.
	top := newInlEnv(info, fd.Body, nil, nil, nil, nil)
	bySite := map[string][]inlSite{}
	{
		seq := 0
		walkInlined(c.P, pk, top, 0, map[*ast.BlockStmt]bool{}, &seq, func(st inlSite) {
			n := st.nodeIn(top)
			if n == nil || n.Pos() < loop.Body.Pos() || n.End() > loop.Body.End() {
				return
			}
			switch st.f.Name() {
			case "ProcessSlot", "ProcessEpoch", "SetSlot", "RotateEpochs", "UpgradeMaybe":
				bySite[st.f.Name()] = append(bySite[st.f.Name()], st)
			}
		})
	}
	var alsoAt []ast.Node // further sites of the same call in the innermost frame (mutually exclusive branches)
	onEveryPath := func(st inlSite) bool {
		var node ast.Node = st.call
		for fr := st.env; fr != nil; fr = fr.up {
			scope := fr.body
			if fr.up == nil {
				scope = loop.Body
			}
			fg := cfg.New(scope, func(*ast.CallExpr) bool { return true })
			var loc []callLoc
			for _, bl := range fg.Blocks {
				for _, nd := range bl.Nodes {
					hit := false
					ast.Inspect(nd, func(k ast.Node) bool {
						if k == node {
							hit = true
						}
						if fr == st.env {
							for _, o := range alsoAt {
								if k == o {
									hit = true
								}
							}
						}
						return !hit
					})
					if hit {
						loc = append(loc, callLoc{blk: bl})
					}
				}
			}
			var ends []*cfg.Block
			if fr.up == nil {
				// the round completes by falling off the end of the loop body (or by `continue`)
				for _, bl := range fg.Blocks {
					if !bl.Live || len(bl.Succs) != 0 {
						continue
					}
					if len(bl.Nodes) > 0 {
						if _, isRet := bl.Nodes[len(bl.Nodes)-1].(*ast.ReturnStmt); isRet {
							continue
						}
					}
					ends = append(ends, bl)
				}
			} else {
				ends = successReturns(fr.info, fg)
				for _, bl := range fg.Blocks {
					if bl.Live && len(bl.Succs) == 0 && len(bl.Nodes) > 0 {
						if _, isRet := bl.Nodes[len(bl.Nodes)-1].(*ast.ReturnStmt); !isRet {
							ends = append(ends, bl)
						}
					}
				}
			}
			if len(loc) == 0 || !cuts(fg, loc, ends) {
				return false
			}
			node = fr.site
		}
		return true
	}
	for _, n := range []string{"ProcessSlot", "SetSlot", "UpgradeMaybe"} {
		key := "ProcessSlots." + n
		l := bySite[n]
		if len(l) > 1 && sitesExclusive(l) {
			// one call in each branch of an if/else: no path passes two of them, and together they must be on every path
			alsoAt = nil
			for _, o := range l[1:] {
				alsoAt = append(alsoAt, o.call)
			}
			okAll := onEveryPath(l[0])
			alsoAt = nil
			if okAll {
				c.ok(key, l[0].call.Pos(), "once per slot on every path (one call in each of %d exclusive branches)", len(l))
			} else {
				c.bad(key, l[0].call.Pos(), "a path completes a slot iteration without %s", n)
			}
			continue
		}
		if len(l) != 1 {
			c.bad(key, loop.Pos(), "%s is called %d times per slot", n, len(l))
			continue
		}
		if !onEveryPath(l[0]) {
			c.bad(key, l[0].call.Pos(), "a path completes a slot iteration without %s", n)
		} else {
			c.ok(key, l[0].call.Pos(), "once per slot on every path")
		}
	}
	// the epoch-end flag: SlotToEpoch(s+1) != SlotToEpoch(s), tested directly or through a local (or a helper
	// parameter) defined as that, in any spelling
	isEpochEnd := func(cd inlCond) bool {
		x, fr := cd.env.resolve(cd.e)
		neg := cd.neg
		for {
			u, ok := x.(*ast.UnaryExpr)
			if !ok || u.Op != token.NOT {
				break
			}
			neg = !neg
			x, fr = fr.resolve(u.X)
		}
		be, ok := x.(*ast.BinaryExpr)
		if !ok {
			return false
		}
		op := be.Op
		if neg {
			op = negOp[op]
		}
		if op != token.NEQ {
			return false
		}
		arg := func(e ast.Expr) (Poly, bool) {
			call, ok := ast.Unparen(e).(*ast.CallExpr)
			if !ok || len(call.Args) != 1 {
				return nil, false
			}
			if f := calleeFunc(fr.info, call); f == nil || f.Name() != "SlotToEpoch" {
				return nil, false
			}
			return fr.poly(call.Args[0])
		}
		pa, ok1 := arg(be.X)
		pb, ok2 := arg(be.Y)
		if !ok1 || !ok2 {
			return false
		}
		d, isK := polyAdd(pa, pb, -1).isConst()
		return isK && (d == 1 || d == -1)
	}
	for _, n := range []string{"ProcessEpoch", "RotateEpochs"} {
		key := "ProcessSlots." + n
		l := bySite[n]
		if len(l) != 1 {
			c.bad(key, loop.Pos(), "%s is called %d times per slot", n, len(l))
			continue
		}
		gov, other := false, ""
		for _, cd := range l[0].conds() {
			if cd.loop {
				continue
			}
			if be, ok := cd.e.(*ast.BinaryExpr); ok && (isNilExpr(cd.env.info, be.X) || isNilExpr(cd.env.info, be.Y)) {
				continue
			}
			if cd.e.Pos() < loop.Body.Pos() && cd.env == top {
				continue // a condition around the whole loop
			}
			if isEpochEnd(cd) {
				gov = true
			} else if !cd.after {
				other = types.ExprString(cd.e)
			}
		}
		switch {
		case !gov:
			c.bad(key, l[0].call.Pos(), "%s is not governed by the epoch-end flag (SlotToEpoch(slot+1) != SlotToEpoch(slot))", n)
		case other != "":
			c.bad(key, l[0].call.Pos(), "%s also depends on `%s`: it must run at every epoch end", n, other)
		default:
			c.ok(key, l[0].call.Pos(), "iff SlotToEpoch(slot+1) != SlotToEpoch(slot)")
		}
	}
	// order (the order in which a round reaches them, helpers read in place)
	order := []string{"ProcessSlot", "ProcessEpoch", "SetSlot", "RotateEpochs", "UpgradeMaybe"}
	for i := 0; i+1 < len(order); i++ {
		a, b := bySite[order[i]], bySite[order[i+1]]
		if len(a) == 0 || len(b) == 0 || (len(a) > 1 && !sitesExclusive(a)) || (len(b) > 1 && !sitesExclusive(b)) {
			continue
		}
		key := "ProcessSlots." + order[i] + "<" + order[i+1]
		// every pair that one path can pass (not in opposite branches of an if/else) is in order
		inOrder, pairs := true, 0
		var at token.Pos
		for _, x := range a {
			for _, y := range b {
				if sitesExclusive([]inlSite{x, y}) {
					continue
				}
				pairs++
				if !(x.seq < y.seq) {
					inOrder, at = false, y.call.Pos()
				}
			}
		}
		if pairs == 0 {
			continue
		}
		if inOrder {
			c.ok(key, b[0].call.Pos(), "in order")
		} else {
			c.bad(key, at, "%s must run before %s within a slot", order[i], order[i+1])
		}
	}
	// the slot counter (the variable of the loop test that the round assigns) moves up by exactly one per round
	{
		var counter types.Object
		var steps []ast.Stmt
		ast.Inspect(contCond, func(k ast.Node) bool {
			id, ok := k.(*ast.Ident)
			if !ok {
				return true
			}
			o := info.Uses[id]
			if _, isVar := o.(*types.Var); !isVar {
				return true
			}
			var stepScope ast.Node = loop.Body
			if loop.Post != nil {
				// the post statement of the loop is part of every round
				stepScope = &ast.BlockStmt{List: append(append([]ast.Stmt{}, loop.Body.List...), loop.Post)}
			}
			ast.Inspect(stepScope, func(m ast.Node) bool {
				switch x := m.(type) {
				case *ast.FuncLit:
					return false
				case *ast.AssignStmt:
					for _, l := range x.Lhs {
						if lid, ok := ast.Unparen(l).(*ast.Ident); ok && info.ObjectOf(lid) == o {
							counter = o
							steps = append(steps, x)
						}
					}
				case *ast.IncDecStmt:
					if lid, ok := ast.Unparen(x.X).(*ast.Ident); ok && info.ObjectOf(lid) == o {
						counter = o
						steps = append(steps, x)
					}
				}
				return true
			})
			return true
		})
		byOne := false
		if counter != nil && len(steps) == 1 {
			want := polyAdd(polyAtom(counter.Name()), polyConst(1), 1)
			stop := map[string]bool{counter.Name(): true}
			switch x := steps[0].(type) {
			case *ast.IncDecStmt:
				byOne = x.Tok == token.INC
			case *ast.AssignStmt:
				if len(x.Lhs) == 1 && len(x.Rhs) == 1 {
					switch x.Tok {
					case token.ADD_ASSIGN:
						if p, ok := top.poly(x.Rhs[0]); ok {
							k, isK := p.isConst()
							byOne = isK && k == 1
						}
					case token.ASSIGN:
						if p, ok := top.polyStop(x.Rhs[0], stop); ok && polyEq(p, want) {
							byOne = true
						} else if src := top.tupleSource(x.Rhs[0]); src != nil {
							// the next slot handed back by a helper: its first result, on every success return
							if f := calleeFunc(info, src); f != nil && f.Pkg() == pk.Types {
								if hd := declOfFunc(pk, f); hd != nil && hd.Body != nil {
									sub := map[types.Object]ast.Expr{}
									i := 0
									for _, fl := range hd.Type.Params.List {
										for _, nm := range fl.Names {
											if i < len(src.Args) {
												sub[info.Defs[nm]] = src.Args[i]
											}
											i++
										}
									}
									he := newInlEnv(info, hd.Body, top, src, sub, nil)
									all, any := true, false
									ast.Inspect(hd.Body, func(m ast.Node) bool {
										if _, isLit := m.(*ast.FuncLit); isLit {
											return false
										}
										r, ok := m.(*ast.ReturnStmt)
										if !ok || len(r.Results) < 2 {
											return true
										}
										// a success return: nil error, or the error of a last step handed on (return x, f())
										if lastR := r.Results[len(r.Results)-1]; !isNilExpr(info, lastR) {
											if cl, ok := ast.Unparen(lastR).(*ast.CallExpr); !ok || calleeFunc(info, cl) == nil {
												return true
											}
										}
										any = true
										if p, ok := he.polyStop(r.Results[0], stop); !ok || !polyEq(p, want) {
											all = false
										}
										return true
									})
									byOne = any && all
								}
							}
						}
					}
				}
			}
		}
		if byOne {
			c.ok("ProcessSlots.step", loop.Pos(), "slot advances by one per iteration")
		} else {
			c.bad("ProcessSlots.step", loop.Pos(), "slot counter is not advanced by exactly one per iteration")
		}
	}

	// PostSlotTransition
	pk, fd = c.P.mustFunc("eth2/beacon/common", "PostSlotTransition")
	info = pk.TypesInfo
	g := cfg.New(fd.Body, func(*ast.CallExpr) bool { return true })
	top = newInlEnv(info, fd.Body, nil, nil, nil, nil)
	var pbS, vsS []inlSite
	{
		seq := 0
		walkInlined(c.P, pk, top, 0, map[*ast.BlockStmt]bool{}, &seq, func(st inlSite) {
			switch {
			case st.f.Name() == "ProcessBlock":
				pbS = append(pbS, st)
			case strings.HasPrefix(st.f.Name(), "VerifySignature"):
				vsS = append(vsS, st)
			}
		})
	}
	var pb []callLoc
	for _, st := range pbS {
		for _, bl := range g.Blocks {
			for _, nd := range bl.Nodes {
				if mentionsNode(nd, st.nodeIn(top)) {
					pb = append(pb, callLoc{blk: bl, call: st.nodeIn(top).(*ast.CallExpr)})
				}
			}
		}
	}
	succ := successReturns(info, g)
	if len(pbS) == 0 || !cuts(g, pb, succ) {
		c.bad("PostSlotTransition.ProcessBlock", fd.Pos(), "a success path skips ProcessBlock")
	} else {
		c.ok("PostSlotTransition.ProcessBlock", pb[0].call.Pos(), "on every success path")
	}
	if len(vsS) != 1 {
		c.bad("PostSlotTransition.signature", fd.Pos(), "proposer signature verification not found")
	} else {
		vs := vsS[0]
		// negated result -> error in the frame the call is written in; governed by the validateResult flag (a boolean
		// parameter of PostSlotTransition) somewhere along its chain of frames
		// a false result refuses: from the test the call stands in, the branch taken when the call is false ends in an
		// error return on every path (decided on the control-flow graph of the frame the call is written in)
		refuses := false
		{
			var owner *ast.FuncType
			if vs.env == top {
				owner = fd.Type
			} else if f := calleeFuncOrNil(vs.env.up.info, vs.env.site); f != nil {
				if hd := declOfFunc(pk, f); hd != nil {
					owner = hd.Type
				}
			}
			// the condition expression the call belongs to, and whether the call stands under an odd number of `!`
			var cond ast.Expr
			odd := false
			var n ast.Node = vs.call
			for p := vs.env.parents[n]; p != nil; n, p = p, vs.env.parents[p] {
				if u, ok := p.(*ast.UnaryExpr); ok && u.Op == token.NOT {
					odd = !odd
					continue
				}
				if _, ok := p.(*ast.ParenExpr); ok {
					continue
				}
				if be, ok := p.(*ast.BinaryExpr); ok && (be.Op == token.LAND || be.Op == token.LOR) {
					cond = n.(ast.Expr)
					break
				}
				if is, ok := p.(*ast.IfStmt); ok && is.Cond == n {
					cond = is.Cond
				}
				break
			}
			if cond != nil && owner != nil {
				if ok, _ := errReachesBranch(vs.env.info, vs.env.body, owner.Results, cond, odd); ok {
					refuses = true
				}
			}
			// valid := sig.Verify(...); if !valid { return err }
			if !refuses {
				if as, ok := vs.env.parents[ast.Node(vs.call)].(*ast.AssignStmt); ok && len(as.Lhs) == 1 && owner != nil {
					if id, ok := as.Lhs[0].(*ast.Ident); ok {
						vobj := vs.env.info.ObjectOf(id)
						ast.Inspect(vs.env.body, func(k ast.Node) bool {
							ifs, ok := k.(*ast.IfStmt)
							if !ok || refuses {
								return true
							}
							e := ast.Unparen(ifs.Cond)
							neg := false
							if u, ok := e.(*ast.UnaryExpr); ok && u.Op == token.NOT {
								neg = true
								e = ast.Unparen(u.X)
							}
							if cid, ok := e.(*ast.Ident); ok && vs.env.info.Uses[cid] == vobj {
								if ok, _ := errReachesBranch(vs.env.info, vs.env.body, owner.Results, ifs.Cond, neg); ok {
									refuses = true
								}
							}
							return true
						})
					}
				}
			}
		}
		gov := false
		for _, cd := range vs.conds() {
			x, fr := cd.env.resolve(cd.e)
			if id, ok := x.(*ast.Ident); ok && !cd.neg && fr == top && isBoolParam(fd, info, id) {
				gov = true
			}
		}
		switch {
		case len(pbS) >= 1 && func() bool {
			// some ProcessBlock that the validating path can reach runs before the check: one in the same or an enclosing
			// branch (a ProcessBlock on the non-validating early return is another path)
			for _, pbs := range pbS {
				if pbs.seq < vs.seq {
					exclusive := false
					for _, cd := range pbs.conds() {
						x, fr := cd.env.resolve(cd.e)
						if id, ok := x.(*ast.Ident); ok && cd.neg && fr == top && isBoolParam(fd, info, id) {
							exclusive = true // under !validateResult
						}
					}
					if !exclusive {
						return true
					}
				}
			}
			return false
		}():
			c.bad("PostSlotTransition.signature", vs.call.Pos(), "the block is processed before its signature is verified")
		case !refuses:
			c.bad("PostSlotTransition.signature", vs.call.Pos(), "a failed signature check does not return an error")
		case !gov:
			c.bad("PostSlotTransition.signature", vs.call.Pos(), "signature check is not governed by validateResult")
		default:
			c.ok("PostSlotTransition.signature", vs.call.Pos(), "verified before ProcessBlock when validateResult; failure returns an error")
		}
	}
	// state root comparison after ProcessBlock: block.StateRoot != hash_tree_root(state) => error, when validateResult.
	// Read through helpers: one side resolves to a HashTreeRoot call, the other to a field named StateRoot.
	found := false
	{
		// the HashTreeRoot call that runs last before the comparison must come after ProcessBlock: order of the round
		htrSeq := map[*ast.CallExpr]int{}
		{
			seq := 0
			walkInlined(c.P, pk, top, 0, map[*ast.BlockStmt]bool{}, &seq, func(st inlSite) {
				if st.f.Name() == "HashTreeRoot" {
					htrSeq[st.call] = st.seq
				}
			})
		}
		walkInlinedNodes(c.P, pk, top, func(n ast.Node, fr *inlEnv) {
			be, ok := n.(*ast.BinaryExpr)
			if !ok || (be.Op != token.NEQ && be.Op != token.EQL) || found {
				return
			}
			htrCall := func(e ast.Expr) *ast.CallExpr {
				x, xfr := fr.resolve(e)
				call, ok := x.(*ast.CallExpr)
				if !ok {
					call = fr.tupleSource(e)
					xfr = fr
				}
				if call == nil {
					return nil
				}
				if f := calleeFunc(xfr.info, call); f != nil && f.Name() == "HashTreeRoot" {
					return call
				}
				return nil
			}
			isDeclared := func(e ast.Expr) bool {
				x, xfr := fr.resolve(e)
				sel, ok := x.(*ast.SelectorExpr)
				if !ok {
					return false
				}
				sn := xfr.info.Selections[sel]
				return sn != nil && sn.Kind() == types.FieldVal && sn.Obj().Name() == "StateRoot"
			}
			var root *ast.CallExpr
			switch {
			case htrCall(be.X) != nil && isDeclared(be.Y):
				root = htrCall(be.X)
			case htrCall(be.Y) != nil && isDeclared(be.X):
				root = htrCall(be.Y)
			default:
				return
			}
			found = true
			key := "PostSlotTransition.state-root"
			hasFlag := false
			var node ast.Node = be
			for q := fr; q != nil; q = q.up {
				for _, cd := range pathCondsAt(q.parents, node) {
					x, xfr := q.resolve(cd.e)
					if id, ok := x.(*ast.Ident); ok && !cd.neg && xfr == top && isBoolParam(fd, info, id) {
						hasFlag = true
					}
				}
				// (a flag tested in the same condition: `if validateResult && a != b`)
				for p := q.parents[node]; p != nil; p = q.parents[p] {
					if ifs, ok := p.(*ast.IfStmt); ok && mentionsNode(ifs.Cond, node) {
						ast.Inspect(ifs.Cond, func(k ast.Node) bool {
							if id, ok := k.(*ast.Ident); ok && q == top && isBoolParam(fd, info, id) {
								hasFlag = true
							}
							return true
						})
					}
				}
				node = q.site
			}
			var owner *ast.FuncDecl
			if fr == top {
				owner = fd
			} else if f := calleeFuncOrNil(fr.up.info, fr.site); f != nil {
				owner = declOfFunc(pk, f)
			}
			rop := token.ILLEGAL
			if owner != nil {
				rop = refusalOp(fr.info, owner, fr.parents, be)
			}
			at := be.Pos()
			switch {
			case len(pbS) == 1 && htrSeq[root] != 0 && htrSeq[root] < pbS[0].seq:
				c.bad(key, at, "state root is compared before the block is processed")
			case rop != token.NEQ:
				c.bad(key, at, "a state-root mismatch does not return an error")
			case !hasFlag:
				c.bad(key, at, "state-root comparison is not governed by validateResult")
			default:
				c.ok(key, at, "block.StateRoot != state root after ProcessBlock => error")
			}
		})
	}
	if !found {
		c.bad("PostSlotTransition.state-root", fd.Pos(), "no comparison of the block's declared state root with the post-state root")
	}
}

func mentionsNode(root ast.Node, target ast.Node) bool {
	found := false
	ast.Inspect(root, func(n ast.Node) bool {
		if n == target {
			found = true
		}
		return !found
	})
	return found
}

func ruleEngineVerdict(c *Ctx) {
	wantOrder := map[string][]string{
		"bellatrix": {"IsValidBlockHash", "NotifyNewPayload"},
		"capella":   {"IsValidBlockHash", "NotifyNewPayload"},
		"deneb":     {"IsValidBlockHash", "IsValidVersionedHashes", "NotifyNewPayload"},
	}
	for _, fork := range []string{"bellatrix", "capella", "deneb"} {
		pk, fd := c.P.mustFunc("eth2/beacon/"+fork, "VerifyAndNotifyNewPayload")
		info := pk.TypesInfo
		// engine calls in order
		var calls []*ast.CallExpr
		ast.Inspect(fd.Body, func(n ast.Node) bool {
			if call, ok := n.(*ast.CallExpr); ok {
				if sel, ok := call.Fun.(*ast.SelectorExpr); ok {
					if _, isI := info.TypeOf(sel.X).Underlying().(*types.Interface); isI && len(call.Args) >= 2 {
						calls = append(calls, call)
					}
				}
			}
			return true
		})
		var got []string
		for _, call := range calls {
			n := call.Fun.(*ast.SelectorExpr).Sel.Name
			for _, w := range []string{"IsValidBlockHash", "IsValidVersionedHashes", "NotifyNewPayload"} {
				if strings.HasSuffix(n, w) {
					got = append(got, w)
				}
			}
		}
		key := fork + ".VerifyAndNotifyNewPayload.order"
		if strings.Join(got, ",") != strings.Join(wantOrder[fork], ",") {
			c.bad(key, fd.Pos(), "engine is consulted as %v, the spec's verify_and_notify_new_payload order is %v", got, wantOrder[fork])
		} else {
			c.ok(key, fd.Pos(), "%v", got)
		}
		// every engine query lies on every path that reaches the final notification (no query is conditional)
		{
			g := cfg.New(fd.Body, func(*ast.CallExpr) bool { return true })
			var locs []callLoc
			for _, b := range g.Blocks {
				for i, nd := range b.Nodes {
					ast.Inspect(nd, func(m ast.Node) bool {
						for _, cl := range calls {
							if m == ast.Node(cl) {
								locs = append(locs, callLoc{blk: b, idx: i, call: cl})
							}
						}
						return true
					})
				}
			}
			if len(locs) == len(calls) && len(calls) >= 2 {
				last := locs[len(locs)-1]
				for _, l := range locs[:len(locs)-1] {
					nme := l.call.Fun.(*ast.SelectorExpr).Sel.Name
					k := fork + ".VerifyAndNotifyNewPayload." + nme + ".always"
					if l.blk != last.blk && !cuts(g, []callLoc{l}, []*cfg.Block{last.blk}) {
						c.bad(k, l.call.Pos(), "%s is only asked on some paths: the payload can reach the engine's final notification (and be accepted) without this query, so an `invalid`/error answer to it is never seen", nme)
					} else {
						c.ok(k, l.call.Pos(), "asked on every path to the final notification")
					}
				}
			}
		}
		parents := parentMap(fd.Body)
		// a query wrapped in a function literal that does nothing but return it, called where it stands (a row of a table
		// of checks after unrolling): the place of the query is the place of that call
		siteOf := func(call *ast.CallExpr) ast.Node {
			r, ok := parents[call].(*ast.ReturnStmt)
			if !ok || len(r.Results) != 1 {
				return call
			}
			blk, ok := parents[r].(*ast.BlockStmt)
			if !ok || len(blk.List) != 1 {
				return call
			}
			lit, ok := parents[blk].(*ast.FuncLit)
			if !ok {
				return call
			}
			if outer, ok := parents[lit].(*ast.CallExpr); ok && ast.Unparen(outer.Fun) == ast.Expr(lit) {
				return outer
			}
			if pe, ok := parents[lit].(*ast.ParenExpr); ok {
				if outer, ok := parents[pe].(*ast.CallExpr); ok {
					return outer
				}
			}
			return call
		}
		for i, call := range calls {
			n := call.Fun.(*ast.SelectorExpr).Sel.Name
			key := fork + ".VerifyAndNotifyNewPayload." + n
			site := siteOf(call)
			if _, isRet := parents[site].(*ast.ReturnStmt); isRet {
				if i == len(calls)-1 {
					c.ok(key, call.Pos(), "final engine verdict returned as is")
				} else {
					c.bad(key, call.Pos(), "engine verdict returned before the remaining checks")
				}
				continue
			}
			as, isAs := parents[site].(*ast.AssignStmt)
			if !isAs || len(as.Lhs) != 2 || len(as.Rhs) != 1 {
				c.unm(key, call.Pos(), "engine result is not assigned to (ok, err)")
				continue
			}
			okId, _ := ast.Unparen(as.Lhs[0]).(*ast.Ident)
			errId, _ := ast.Unparen(as.Lhs[1]).(*ast.Ident)
			if okId == nil || errId == nil || info.ObjectOf(okId) == nil || info.ObjectOf(errId) == nil {
				c.unm(key, call.Pos(), "engine result is not assigned to (ok, err)")
				continue
			}
			okObj, errObj := info.ObjectOf(okId), info.ObjectOf(errId)
			// decided on the control-flow graph: with the engine's error in hand every path returns it; with the answer
			// taken to be `false` every path returns false, and none reaches the next engine query
			if reaches, why := errReaches(info, fd.Body, fd.Type.Results, as, errObj, nil); !reaches {
				c.bad(key, call.Pos(), "an engine error is not turned into (false, err): %s", why)
				continue
			}
			var next ast.Node
			if i+1 < len(calls) {
				next = siteOf(calls[i+1])
			}
			outs, reachedNext, okW := outcomesAfter(info, fd.Body, as, map[types.Object]bool{okObj: false}, next)
			if !okW || len(outs) == 0 {
				c.unm(key, call.Pos(), "the engine query is not on the control-flow graph of its function")
				continue
			}
			allFalse := true
			for _, o := range outs {
				if o.ret == nil || o.decided >= 0 {
					allFalse = false
				}
			}
			switch {
			case reachedNext:
				c.bad(key, call.Pos(), "the next engine query can be reached although this answer was `false`")
				continue
			case !allFalse:
				c.bad(key, call.Pos(), "the engine's `false` answer does not yield (false, nil) on every path")
				continue
			}
			c.ok(key, call.Pos(), "err => (false, err); !ok => (false, nil)")
		}
	}
	// ProcessExecutionPayload
	for _, fork := range []string{"bellatrix", "capella", "deneb"} {
		pk, fd := c.P.mustFunc("eth2/beacon/"+fork, "ProcessExecutionPayload")
		info := pk.TypesInfo
		g := cfg.New(fd.Body, func(*ast.CallExpr) bool { return true })
		calls := cfgCalls(info, g, func(q string, f *types.Func) bool {
			return f.Name() == "VerifyAndNotifyNewPayload" || f.Name() == "SetLatestExecutionPayloadHeader"
		})
		var vn, set []callLoc
		for q, l := range calls {
			if strings.HasSuffix(q, "VerifyAndNotifyNewPayload") {
				vn = append(vn, l...)
			} else {
				set = append(set, l...)
			}
		}
		key := fork + ".ProcessExecutionPayload.header-after-verdict"
		if len(vn) != 1 || len(set) != 1 {
			c.bad(key, fd.Pos(), "expected one engine consultation and one header store, found %d and %d", len(vn), len(set))
			continue
		}
		if !cuts(g, vn, []*cfg.Block{set[0].blk}) && vn[0].blk != set[0].blk {
			c.bad(key, set[0].call.Pos(), "the payload header can be stored without consulting the engine")
			continue
		}
		// verdict handling, decided on the control-flow graph: with the engine's error in hand every path returns it;
		// with the verdict taken to be `invalid` every path returns an error and none reaches the header store
		parents := parentMap(fd.Body)
		as, isAs := parents[vn[0].call].(*ast.AssignStmt)
		var validObj, errObj types.Object
		if isAs && len(as.Lhs) == 2 && len(as.Rhs) == 1 {
			if a0, ok := ast.Unparen(as.Lhs[0]).(*ast.Ident); ok {
				validObj = info.ObjectOf(a0)
			}
			if a1, ok := ast.Unparen(as.Lhs[1]).(*ast.Ident); ok {
				errObj = info.ObjectOf(a1)
			}
		}
		if validObj == nil || errObj == nil {
			c.unm(key, vn[0].call.Pos(), "the engine's answer is not assigned to (valid, err)")
			continue
		}
		if reaches, why := errReaches(info, fd.Body, fd.Type.Results, as, errObj, nil); !reaches {
			c.bad(key, vn[0].call.Pos(), "an engine error does not make ProcessExecutionPayload fail with that error (%s): it can report success for a payload the engine did not accept", why)
		} else if outs, stored, okW := outcomesAfter(info, fd.Body, as, map[types.Object]bool{validObj: false}, set[0].call); !okW || len(outs) == 0 {
			c.unm(key, vn[0].call.Pos(), "the engine consultation is not on the control-flow graph of its function")
		} else {
			refused := true
			for _, o := range outs {
				if o.ret == nil || !refusalReturn(info, o.ret, fd) {
					refused = false
				}
			}
			switch {
			case stored:
				c.bad(key, set[0].call.Pos(), "the payload header is stored although the engine's verdict was `invalid`")
			case !refused:
				c.bad(key, vn[0].call.Pos(), "the engine's `invalid` verdict does not make ProcessExecutionPayload fail")
			case set[0].call.Pos() < vn[0].call.Pos():
				c.bad(key, set[0].call.Pos(), "payload header stored before the engine verdict")
			default:
				c.ok(key, vn[0].call.Pos(), "err => error, !valid => error, header stored afterwards")
			}
		}
		// request contents
		var req *ast.CompositeLit
		ast.Inspect(vn[0].call, func(n ast.Node) bool {
			if cl, ok := n.(*ast.CompositeLit); ok {
				if nt := namedOf(info.TypeOf(cl)); nt != nil && nt.Obj().Name() == "NewPayloadRequest" {
					req = cl
				}
			}
			return true
		})
		rkey := fork + ".ProcessExecutionPayload.request"
		if req == nil {
			// the request built beforehand and handed over as a local
			rdefs := singleDefs(info, fd.Body)
			for _, a := range vn[0].call.Args {
				if id, ok := ast.Unparen(a).(*ast.Ident); ok {
					if d, ok := rdefs[info.Uses[id]]; ok && d.pos == 0 && d.rhs != nil {
						ast.Inspect(d.rhs, func(n ast.Node) bool {
							if cl, ok := n.(*ast.CompositeLit); ok {
								if nt := namedOf(info.TypeOf(cl)); nt != nil && nt.Obj().Name() == "NewPayloadRequest" {
									req = cl
								}
							}
							return true
						})
					}
				}
			}
		}
		if req == nil {
			// built field by field (var req NewPayloadRequest; req.F = v): read as the literal it amounts to
			if bs := structBuilds(info, fd.Body, "NewPayloadRequest"); len(bs) == 1 && len(bs[0].fields) > 0 {
				req = &ast.CompositeLit{Lbrace: bs[0].pos, Rbrace: bs[0].pos}
				for _, fname := range sortedKeys(bs[0].fields) {
					req.Elts = append(req.Elts, &ast.KeyValueExpr{Key: &ast.Ident{Name: fname, NamePos: bs[0].pos}, Value: bs[0].fields[fname]})
				}
			}
		}
		if req == nil {
			c.unm(rkey, vn[0].call.Pos(), "NewPayloadRequest literal not found")
			continue
		}
		// the request's fields, each followed through locals, conversions, & and helper parameters to what it stands for
		top := newInlEnv(info, fd.Body, nil, nil, nil, nil)
		var vhSites []inlSite
		seq := 0
		walkInlined(c.P, pk, top, 0, map[*ast.BlockStmt]bool{}, &seq, func(st inlSite) {
			if st.f.Name() == "ToVersionedHash" {
				vhSites = append(vhSites, st)
			}
		})
		fieldOf := func(e ast.Expr, fr *inlEnv) string {
			if sel, ok := ast.Unparen(e).(*ast.SelectorExpr); ok {
				if sn := fr.info.Selections[sel]; sn != nil && sn.Kind() == types.FieldVal {
					return sn.Obj().Name()
				}
			}
			return ""
		}
		bad := ""
		for _, el := range req.Elts {
			kv, ok := el.(*ast.KeyValueExpr)
			if !ok {
				continue
			}
			k := kv.Key.(*ast.Ident).Name
			x, fr := top.resolve(kv.Value)
			switch k {
			case "ExecutionPayload":
				// the block's own payload: a parameter of this fork's ExecutionPayload type, or the body's field of that name
				if nt := namedOf(info.TypeOf(kv.Value)); nt == nil || nt.Obj().Name() != "ExecutionPayload" || nt.Obj().Pkg() != pk.Types {
					bad = "ExecutionPayload is " + types.ExprString(kv.Value)
				} else if id, ok := x.(*ast.Ident); ok {
					if paramIndex(fd, info, fr.info.Uses[id]) < 0 {
						bad = "ExecutionPayload is " + types.ExprString(kv.Value) + ", not the block's payload"
					}
				} else if fieldOf(x, fr) != "ExecutionPayload" {
					bad = "ExecutionPayload is " + types.ExprString(kv.Value) + ", not the block's payload"
				}
			case "ParentBeaconBlockRoot":
				if fieldOf(x, fr) != "ParentRoot" {
					bad = "ParentBeaconBlockRoot is " + types.ExprString(kv.Value) + ", want latest_block_header.parent_root"
				} else {
					src := fr.tupleSource(ast.Unparen(x).(*ast.SelectorExpr).X)
					if sf := calleeFuncOrNil(fr.info, src); sf == nil || sf.Name() != "LatestBlockHeader" {
						bad = "ParentBeaconBlockRoot is not read from state.LatestBlockHeader()"
					}
				}
			case "VersionedHashes":
				// the slice that collects elem.ToVersionedHash() for the elements of the body's BlobKZGCommitments, in
				// order: built here or in a helper that is handed the commitments
				okVH := false
				for _, st := range vhSites {
					sel, ok := ast.Unparen(st.call.Fun).(*ast.SelectorExpr)
					if !ok {
						continue
					}
					// the receiver is the element of a range statement around the call (or of a counting loop over the
					// same list: for i := 0; i < len(xs); i++ { … xs[i] … }, read as the range it amounts to)
					var rs *ast.RangeStmt
					for q := st.env.parents[st.call]; q != nil && rs == nil; q = st.env.parents[q] {
						if r, ok := q.(*ast.RangeStmt); ok {
							rs = r
						}
						if fs, ok := q.(*ast.ForStmt); ok {
							if r := countingAsRange(st.env.info, fs); r != nil {
								rs = r
							}
						}
					}
					if rs == nil {
						continue
					}
					elem := false
					switch rx := ast.Unparen(sel.X).(type) {
					case *ast.Ident:
						if vid, ok := rs.Value.(*ast.Ident); ok && st.env.info.Uses[rx] == st.env.info.Defs[vid] {
							elem = true
						}
					case *ast.IndexExpr:
						kid, ok1 := rs.Key.(*ast.Ident)
						iid, ok2 := ast.Unparen(rx.Index).(*ast.Ident)
						if ok1 && ok2 && st.env.info.Uses[iid] == st.env.info.Defs[kid] && types.ExprString(rx.X) == types.ExprString(rs.X) {
							elem = true
						}
					}
					if !elem {
						continue
					}
					rx, rfr := st.env.resolve(rs.X)
					if fieldOf(rx, rfr) != "BlobKZGCommitments" {
						continue
					}
					// collected by append into the value the request is given, or stored at the element's own position
					var dst types.Object
					if ap, ok := st.env.parents[st.call].(*ast.CallExpr); ok {
						if id, ok := ap.Fun.(*ast.Ident); !ok || id.Name != "append" {
							continue
						}
						as, ok := st.env.parents[ap].(*ast.AssignStmt)
						if !ok || len(as.Lhs) != 1 {
							continue
						}
						dst = st.env.info.ObjectOf(identOrNil(as.Lhs[0]))
					} else if as, ok := st.env.parents[st.call].(*ast.AssignStmt); ok && len(as.Lhs) == 1 && len(as.Rhs) == 1 {
						ix, ok := ast.Unparen(as.Lhs[0]).(*ast.IndexExpr)
						kid, okK := rs.Key.(*ast.Ident)
						if !ok || !okK {
							continue
						}
						iid, okI := ast.Unparen(ix.Index).(*ast.Ident)
						if !okI || st.env.info.ObjectOf(iid) != st.env.info.ObjectOf(kid) {
							continue
						}
						dst = st.env.info.ObjectOf(identOrNil(ix.X))
					}
					if dst == nil {
						continue
					}
					if st.env == top {
						if id, ok := ast.Unparen(kv.Value).(*ast.Ident); ok && info.Uses[id] == dst {
							okVH = true
						}
					} else if call, ok := x.(*ast.CallExpr); ok && st.nodeIn(top) == ast.Node(call) {
						// the helper returns the slice it appended to
						returnsDst := false
						ast.Inspect(st.env.body, func(m ast.Node) bool {
							if r, ok := m.(*ast.ReturnStmt); ok && len(r.Results) >= 1 {
								if id, ok := ast.Unparen(r.Results[0]).(*ast.Ident); ok && st.env.info.Uses[id] == dst {
									returnsDst = true
								}
							}
							return true
						})
						okVH = returnsDst
					}
				}
				if !okVH {
					bad = "VersionedHashes are not the versioned hashes of body.BlobKZGCommitments in order"
				}
			}
		}
		if bad != "" {
			c.bad(rkey, req.Pos(), "%s", bad)
		} else {
			c.ok(rkey, req.Pos(), "request built from the block's payload%s", map[bool]string{true: ", commitments and latest header parent root", false: ""}[fork == "deneb"])
		}
	}
}

func calleeFuncOrNil(info *types.Info, call *ast.CallExpr) *types.Func {
	if call == nil {
		return nil
	}
	return calleeFunc(info, call)
}

func identOrNil(e ast.Expr) *ast.Ident {
	id, _ := ast.Unparen(e).(*ast.Ident)
	if id == nil {
		return &ast.Ident{Name: "_"}
	}
	return id
}

func returnsFalseErr(info *types.Info, b *ast.BlockStmt, errObj types.Object) bool {
	if b == nil || len(b.List) == 0 {
		return false
	}
	r, ok := b.List[len(b.List)-1].(*ast.ReturnStmt)
	if !ok || len(r.Results) != 2 {
		return false
	}
	if id, ok := ast.Unparen(r.Results[0]).(*ast.Ident); !ok || id.Name != "false" {
		return false
	}
	if id, ok := ast.Unparen(r.Results[1]).(*ast.Ident); ok && id.Name == "nil" {
		return false
	}
	return mentions(info, r.Results[1], errObj)
}

func returnsFalseNil(b *ast.BlockStmt) bool {
	if b == nil || len(b.List) == 0 {
		return false
	}
	r, ok := b.List[len(b.List)-1].(*ast.ReturnStmt)
	if !ok || len(r.Results) != 2 {
		return false
	}
	a, ok1 := ast.Unparen(r.Results[0]).(*ast.Ident)
	b2, ok2 := ast.Unparen(r.Results[1]).(*ast.Ident)
	return ok1 && ok2 && a.Name == "false" && b2.Name == "nil"
}

func ruleLimitsFirst(c *Ctx) {
	se := newShapeEval(c.P)
	for _, fork := range []string{"phase0", "altair", "bellatrix", "capella", "deneb", "electra"} {
		pk, fd := c.P.findFunc("eth2/beacon/"+fork, "BeaconBlockBody.CheckLimits")
		if fd == nil {
			anchorFail("%s.BeaconBlockBody.CheckLimits not found", fork)
		}
		info := pk.TypesInfo
		recv := info.Defs[fd.Recv.List[0].Names[0]]
		st := namedOf(info.TypeOf(fd.Recv.List[0].Type)).Underlying().(*types.Struct)
		checked := map[string]bool{}
		env := &intEnv{pk: pk}
		for _, pr := range limitPairs(c.P, pk, fd, nil, nil, 0) {
			// the length side: len(<receiver>.<path>)
			var field string
			var fieldExpr ast.Expr
			ast.Inspect(pr.count, func(m ast.Node) bool {
				call, ok := m.(*ast.CallExpr)
				if !ok {
					return true
				}
				if id, ok := call.Fun.(*ast.Ident); ok && id.Name == "len" && len(call.Args) == 1 {
					root := ast.Unparen(call.Args[0])
					for {
						if sel, ok := root.(*ast.SelectorExpr); ok {
							root = ast.Unparen(sel.X)
							continue
						}
						break
					}
					if id, ok := root.(*ast.Ident); ok && info.Uses[id] == recv {
						fieldExpr = call.Args[0]
						field = strings.TrimPrefix(types.ExprString(call.Args[0]), id.Name+".")
					}
				}
				return true
			})
			if field == "" {
				continue
			}
			checked[field] = true
			key := fork + ".CheckLimits." + field
			got, ok := se.intExpr(env, pr.limit)
			if !ok {
				c.unm(key, pr.pos, "limit %s not normalisable", types.ExprString(pr.limit))
				continue
			}
			sh := canon(se.typeShape(info.TypeOf(fieldExpr), "Deserialize"))
			if sh.K != "list" && sh.K != "bytelist" && sh.K != "bitlist" {
				c.unm(key, pr.pos, "field %s is not a list (%s)", field, sh.K)
				continue
			}
			if polyEq(got, sh.N) {
				c.ok(key, pr.pos, "len(%s) > %s", field, sh.N.String())
			} else if field == "BlobKZGCommitments" && got.String() == "MAX_BLOBS_PER_BLOCK" {
				c.ok(key, pr.pos, "spec exception: commitments are bounded by MAX_BLOBS_PER_BLOCK in process_execution_payload while the SSZ limit is MAX_BLOB_COMMITMENTS_PER_BLOCK")
			} else {
				c.bad(key, pr.pos, "%s is bounded by %s, its SSZ list limit is %s (a block the spec rejects passes, or one it accepts fails)", field, got.String(), sh.N.String())
			}
		}
		// coverage: every list-typed operation field
		for i := 0; i < st.NumFields(); i++ {
			f := st.Field(i)
			sh := canon(se.typeShape(f.Type(), "Deserialize"))
			if sh.K != "list" {
				continue
			}
			if !checked[f.Name()] {
				c.bad(fork+".CheckLimits."+f.Name(), fd.Pos(), "list field %s of the block body is not bounded by CheckLimits", f.Name())
			}
		}
	}
}

func ruleMerkleBound(c *Ctx) {
	n := 0
	c.P.funcDecls(func(pk *packages.Package, fd *ast.FuncDecl) {
		info := pk.TypesInfo
		parents := parentMap(fd.Body)
		ast.Inspect(fd.Body, func(m ast.Node) bool {
			call, ok := m.(*ast.CallExpr)
			if !ok {
				return true
			}
			f := calleeFunc(info, call)
			if f == nil || f.Name() != "VerifyMerkleBranch" || !isZrnt(f) || len(call.Args) != 5 {
				return true
			}
			n++
			site := pkgShort(pk.Types) + "." + funcName(fd)
			// branch: full slice of an array
			sl, ok := ast.Unparen(call.Args[1]).(*ast.SliceExpr)
			depth := info.Types[call.Args[2]]
			if !ok || sl.Low != nil || sl.High != nil {
				c.bad(site+".branch", call.Pos(), "branch argument is not the full slice of a fixed-size proof array")
			} else if at, ok := info.TypeOf(sl.X).Underlying().(*types.Array); !ok {
				c.bad(site+".branch", call.Pos(), "branch argument %s is not backed by an array: its length is attacker-controlled", types.ExprString(sl.X))
			} else if depth.Value == nil {
				c.bad(site+".branch", call.Pos(), "depth is not a constant")
			} else if d := depth.Value.String(); d > "" {
				var dv int64
				for _, ch := range d {
					dv = dv*10 + int64(ch-'0')
				}
				if at.Len() < dv {
					c.bad(site+".branch", call.Pos(), "proof array has %d elements but depth is %d: the verifier reads past the end", at.Len(), dv)
				} else {
					c.ok(site+".branch", call.Pos(), "array of %d roots, depth %d", at.Len(), dv)
				}
			}
			// result honoured
			neg := false
			var ifs *ast.IfStmt
			for p := parents[ast.Node(call)]; p != nil; p = parents[p] {
				if u, ok := p.(*ast.UnaryExpr); ok && u.Op == token.NOT {
					neg = true
				}
				if i2, ok := p.(*ast.IfStmt); ok {
					ifs = i2
					break
				}
			}
			// decided on the control-flow graph first: with the verifier's answer taken to be `false` (the answer
			// possibly kept in a local before it is tested), every path ends in a return of a non-nil error
			walked := false
			if outs, okW := outcomesUnder(info, fd.Body, call, false); okW && len(outs) > 0 {
				walked = true
				for _, o := range outs {
					if o.ret == nil || len(o.ret.Results) == 0 {
						walked = false
						break
					}
					last := ast.Unparen(o.ret.Results[len(o.ret.Results)-1])
					if isNilExpr(info, last) || !(isErrorT(info.TypeOf(last)) || types.Implements(info.TypeOf(last), errorIface())) {
						walked = false
						break
					}
					// a plain `return err` could be a nil error: only errors built on the spot count
					if _, isCall := last.(*ast.CallExpr); !isCall {
						walked = false
						break
					}
				}
			}
			if walked {
				c.ok(site+".result", call.Pos(), "a failed proof ends every path in an error")
			} else if ifs == nil || !neg || !endsInErrorReturn(info, ifs.Body, nil, fd) {
				c.bad(site+".result", call.Pos(), "a failed Merkle proof does not return an error")
			} else {
				c.ok(site+".result", call.Pos(), "failed proof => error")
			}
			// before IncrementDepositIndex
			var inc *ast.CallExpr
			ast.Inspect(fd.Body, func(k ast.Node) bool {
				if c2, ok := k.(*ast.CallExpr); ok {
					if g := calleeFunc(info, c2); g != nil && g.Name() == "IncrementDepositIndex" {
						inc = c2
					}
				}
				return true
			})
			if inc != nil && fd.Name.Name == "ProcessDeposit" {
				g := cfg.New(fd.Body, func(*ast.CallExpr) bool { return true })
				calls := cfgCalls(info, g, func(q string, f *types.Func) bool { return f.Name() == "IncrementDepositIndex" })
				var locs []callLoc
				for _, l := range calls {
					locs = append(locs, l...)
				}
				if cuts(g, locs, successReturns(info, g)) {
					c.ok(site+".increment-always", inc.Pos(), "every success path (including the skipped-deposit paths) advances the deposit index")
				} else {
					c.bad(site+".increment-always", inc.Pos(), "a path returns success without advancing eth1_deposit_index: the spec advances it for every deposit, also for the ones it skips (invalid pubkey / proof of possession)")
				}
			}
			if inc != nil {
				if inc.Pos() > call.Pos() {
					c.ok(site+".before-increment", inc.Pos(), "proof is checked before the deposit index advances")
				} else {
					c.bad(site+".before-increment", inc.Pos(), "deposit index advances before the proof is checked")
				}
			}
			return true
		})
	})
	c.stat("verify_merkle_branch_sites", n)
}

func ruleForkSettings(c *Ctx) {
	want := map[string]string{"phase0": "", "altair": "_ALTAIR", "bellatrix": "_BELLATRIX", "capella": "_BELLATRIX", "deneb": "_BELLATRIX"}
	bases := map[string]string{"MinSlashingPenaltyQuotient": "MIN_SLASHING_PENALTY_QUOTIENT", "ProportionalSlashingMultiplier": "PROPORTIONAL_SLASHING_MULTIPLIER", "InactivityPenaltyQuotient": "INACTIVITY_PENALTY_QUOTIENT"}
	for _, fork := range []string{"phase0", "altair", "bellatrix", "capella", "deneb"} {
		pk, fd := c.P.mustFunc("eth2/beacon/"+fork, "BeaconStateView.ForkSettings")
		// the settings value, built with a literal or field by field on a local (or both)
		var elts []*ast.KeyValueExpr
		ast.Inspect(fd.Body, func(n ast.Node) bool {
			switch x := n.(type) {
			case *ast.CompositeLit:
				if nt := namedOf(pk.TypesInfo.TypeOf(x)); nt != nil && nt.Obj().Name() == "ForkSettings" {
					for _, el := range x.Elts {
						if kv, ok := el.(*ast.KeyValueExpr); ok {
							elts = append(elts, kv)
						}
					}
				}
			case *ast.AssignStmt:
				if x.Tok != token.ASSIGN || len(x.Lhs) != len(x.Rhs) {
					return true
				}
				for i, l := range x.Lhs {
					sel, ok := ast.Unparen(l).(*ast.SelectorExpr)
					if !ok {
						continue
					}
					if nt := namedOf(pk.TypesInfo.TypeOf(sel.X)); nt != nil && nt.Obj().Name() == "ForkSettings" {
						elts = append(elts, &ast.KeyValueExpr{Key: sel.Sel, Colon: x.TokPos, Value: x.Rhs[i]})
					}
				}
			}
			return true
		})
		if len(elts) == 0 {
			anchorFail("%s.ForkSettings: the settings value is built neither by a literal nor field by field", fork)
		}
		for _, kv := range elts {
			k := kv.Key.(*ast.Ident).Name
			key := fork + ".ForkSettings." + k
			if base, ok := bases[k]; ok {
				var got string
				ast.Inspect(kv.Value, func(m ast.Node) bool {
					if sel, ok := m.(*ast.SelectorExpr); ok && strings.HasPrefix(sel.Sel.Name, base) {
						got = sel.Sel.Name
					}
					return true
				})
				if got == base+want[fork] {
					c.ok(key, kv.Pos(), "%s", got)
				} else {
					c.bad(key, kv.Pos(), "%s reads %s, the %s fork uses %s", k, got, fork, base+want[fork])
				}
				continue
			}
			if k == "CalcProposerShare" {
				// the function the field is given (a literal, or a declared function of the module), read as the
				// formula it returns: phase0 divides by the spec's PROPOSER_REWARD_QUOTIENT, later forks do not (their
				// weights are constants; the exact formula is a formula.spec entry)
				var body *ast.BlockStmt
				info := pk.TypesInfo
				finfo := info
				switch v := ast.Unparen(kv.Value).(type) {
				case *ast.FuncLit:
					body = v.Body
				case *ast.Ident, *ast.SelectorExpr:
					var obj types.Object
					if id, ok := v.(*ast.Ident); ok {
						obj = info.Uses[id]
					} else {
						obj = info.Uses[v.(*ast.SelectorExpr).Sel]
					}
					if f, ok := obj.(*types.Func); ok {
						c.P.funcDecls(func(p2 *packages.Package, f2 *ast.FuncDecl) {
							if f2.Body != nil && p2.TypesInfo.Defs[f2.Name] == f {
								body, finfo = f2.Body, p2.TypesInfo
							}
						})
					}
				}
				if body == nil {
					c.unm(key, kv.Pos(), "the proposer-share function is neither a literal nor a declared function")
					continue
				}
				var atoms []string
				readable := true
				fdefs := singleDefs(finfo, body)
				ast.Inspect(body, func(m ast.Node) bool {
					if r, ok := m.(*ast.ReturnStmt); ok && len(r.Results) == 1 {
						p, ok := exprPoly(finfo, r.Results[0], fdefs, nil, 0)
						if !ok {
							readable = false
							return true
						}
						atoms = append(atoms, p.String())
					}
					return true
				})
				form := strings.Join(atoms, " | ")
				phase0Form := strings.Contains(form, "PROPOSER_REWARD_QUOTIENT")
				switch {
				case !readable || len(atoms) == 0:
					c.unm(key, kv.Pos(), "the proposer-share function's result is not readable as a formula")
				case fork == "phase0" && phase0Form:
					c.ok(key, kv.Pos(), "reward / PROPOSER_REWARD_QUOTIENT")
				case fork != "phase0" && !phase0Form:
					c.ok(key, kv.Pos(), "reward * PROPOSER_WEIGHT / WEIGHT_DENOMINATOR (formula: formula.spec)")
				default:
					c.bad(key, kv.Pos(), "proposer share function of %s uses the other fork family's form (%s)", fork, form)
				}
			}
		}
	}
}

var _ = packages.NeedName

// isBoolParam: id is a use of a bool-typed parameter of fd (PostSlotTransition's validateResult, whatever it is called).
func isBoolParam(fd *ast.FuncDecl, info *types.Info, id *ast.Ident) bool {
	o := info.Uses[id]
	if o == nil || paramIndex(fd, info, o) < 0 {
		return false
	}
	b, ok := o.Type().Underlying().(*types.Basic)
	return ok && b.Kind() == types.Bool
}

// limitPairs: the (count, limit) pairs that a limits check refuses on `count > limit`, however the checks are laid out:
// written one after the other, handed to an unexported helper `check(what, count, limit)`, or listed as rows of a
// local table that a loop walks (possibly calling such a helper). Expressions are returned with locals, helper
// parameters and row fields substituted, so that each pair reads in terms of the analysed function's receiver.
type limitPair struct {
	count, limit ast.Expr
	pos          token.Pos
}

type selKey struct {
	o types.Object
	f string
}

func limitPairs(p *Prog, pk *packages.Package, fd *ast.FuncDecl, idEnv map[types.Object]ast.Expr, selEnv map[selKey]ast.Expr, depth int) []limitPair {
	info := pk.TypesInfo
	if fd.Body == nil || depth > 2 {
		return nil
	}
	defs := singleDefs(info, fd.Body)
	var subst func(e ast.Expr, d int) ast.Expr
	subst = func(e ast.Expr, d int) ast.Expr {
		if e == nil || d > 8 {
			return e
		}
		switch x := e.(type) {
		case *ast.ParenExpr:
			return subst(x.X, d)
		case *ast.Ident:
			o := info.Uses[x]
			if a, ok := idEnv[o]; ok {
				return a
			}
			if df, ok := defs[o]; ok && df.pos == 0 && df.n == 1 && df.rhs != nil {
				return subst(df.rhs, d+1)
			}
			return x
		case *ast.SelectorExpr:
			if id, ok := ast.Unparen(x.X).(*ast.Ident); ok {
				if a, ok := selEnv[selKey{info.Uses[id], x.Sel.Name}]; ok {
					return a
				}
			}
			return x
		case *ast.CallExpr:
			n := &ast.CallExpr{Fun: x.Fun, Lparen: x.Lparen, Rparen: x.Rparen}
			for _, a := range x.Args {
				n.Args = append(n.Args, subst(a, d))
			}
			if tv, ok := info.Types[x]; ok {
				info.Types[n] = tv
			}
			return n
		}
		return e
	}
	// tables: a local slice-of-struct literal and the loops that range over it
	rowsOf := func(o types.Object) []*ast.CompositeLit {
		df, ok := defs[o]
		if !ok || df.rhs == nil {
			return nil
		}
		cl, ok := ast.Unparen(df.rhs).(*ast.CompositeLit)
		if !ok {
			return nil
		}
		var rows []*ast.CompositeLit
		for _, el := range cl.Elts {
			if r, ok := el.(*ast.CompositeLit); ok {
				rows = append(rows, r)
			}
		}
		return rows
	}
	rowEnv := func(valObj types.Object, row *ast.CompositeLit, st *types.Struct) map[selKey]ast.Expr {
		m := map[selKey]ast.Expr{}
		for k, v := range selEnv {
			m[k] = v
		}
		for i, el := range row.Elts {
			if kv, ok := el.(*ast.KeyValueExpr); ok {
				if id, ok := kv.Key.(*ast.Ident); ok {
					m[selKey{valObj, id.Name}] = subst(kv.Value, 0)
				}
			} else if st != nil && i < st.NumFields() {
				m[selKey{valObj, st.Field(i).Name()}] = subst(el, 0)
			}
		}
		return m
	}
	var out []limitPair
	var walk func(n ast.Node, sEnv map[selKey]ast.Expr)
	walk = func(root ast.Node, sEnv map[selKey]ast.Expr) {
		saved := selEnv
		selEnv = sEnv
		defer func() { selEnv = saved }()
		ast.Inspect(root, func(n ast.Node) bool {
			switch x := n.(type) {
			case *ast.FuncLit:
				return false
			case *ast.RangeStmt:
				// for _, l := range table { … }: the body once per row
				if id, ok := ast.Unparen(x.X).(*ast.Ident); ok && x.Value != nil {
					if vid, ok := x.Value.(*ast.Ident); ok {
						if rows := rowsOf(info.Uses[id]); len(rows) > 0 {
							var st *types.Struct
							if sl, ok := info.TypeOf(x.X).Underlying().(*types.Slice); ok {
								st, _ = sl.Elem().Underlying().(*types.Struct)
							}
							for _, r := range rows {
								walk(x.Body, rowEnv(info.Defs[vid], r, st))
							}
							return false
						}
					}
				}
			case *ast.UnaryExpr:
				// !(limit >= count) is count > limit
				if x.Op == token.NOT {
					if be, ok := ast.Unparen(x.X).(*ast.BinaryExpr); ok {
						var cnt, lim ast.Expr
						switch negOp[be.Op] {
						case token.GTR:
							cnt, lim = be.X, be.Y
						case token.LSS:
							cnt, lim = be.Y, be.X
						default:
							return true
						}
						out = append(out, limitPair{subst(cnt, 0), subst(lim, 0), be.Pos()})
						return false
					}
				}
			case *ast.BinaryExpr:
				var cnt, lim ast.Expr
				switch x.Op {
				case token.GTR:
					cnt, lim = x.X, x.Y
				case token.LSS:
					cnt, lim = x.Y, x.X
				default:
					return true
				}
				out = append(out, limitPair{subst(cnt, 0), subst(lim, 0), x.Pos()})
			case *ast.CallExpr:
				f := calleeFunc(info, x)
				if f == nil || f.Exported() || f.Pkg() != pk.Types {
					return true
				}
				var hd *ast.FuncDecl
				p.funcDecls(func(p2 *packages.Package, f2 *ast.FuncDecl) {
					if p2 == pk && p2.TypesInfo.Defs[f2.Name] == f {
						hd = f2
					}
				})
				if hd == nil || hd == fd {
					return true
				}
				henv := map[types.Object]ast.Expr{}
				i := 0
				for _, fl := range hd.Type.Params.List {
					for _, nm := range fl.Names {
						if i < len(x.Args) {
							henv[info.Defs[nm]] = subst(x.Args[i], 0)
						}
						i++
					}
				}
				for _, hp := range limitPairs(p, pk, hd, henv, nil, depth+1) {
					hp.pos = x.Pos()
					out = append(out, hp)
				}
			}
			return true
		})
	}
	walk(fd.Body, selEnv)
	return out
}

// sitesExclusive: the sites stand in one frame, each pair in opposite branches of an if/else (no path passes two).
func sitesExclusive(l []inlSite) bool {
	if len(l) < 2 {
		return false
	}
	for i := 0; i < len(l); i++ {
		for j := i + 1; j < len(l); j++ {
			a, b := l[i], l[j]
			if a.env != b.env {
				return false
			}
			// the innermost statement that holds both
			inside := func(n ast.Node, outer ast.Node) bool {
				return outer != nil && n.Pos() >= outer.Pos() && n.End() <= outer.End()
			}
			excl := false
			for p := a.env.parents[ast.Node(a.call)]; p != nil; p = a.env.parents[p] {
				if !inside(b.call, p) {
					continue
				}
				if is, ok := p.(*ast.IfStmt); ok && is.Else != nil {
					if (inside(a.call, is.Body) && inside(b.call, is.Else)) || (inside(b.call, is.Body) && inside(a.call, is.Else)) {
						excl = true
					}
				}
				// `if c { …; return a() }` followed by b(): the branch leaves, what follows it is its else
				if bs, ok := p.(*ast.BlockStmt); ok {
					leavingIf := func(x, y *ast.CallExpr) bool {
						for k, st := range bs.List {
							is, ok := st.(*ast.IfStmt)
							if !ok || is.Else != nil || !inside(x, is.Body) || !terminates(is.Body) {
								continue
							}
							for _, later := range bs.List[k+1:] {
								if inside(y, later) {
									return true
								}
							}
						}
						return false
					}
					if leavingIf(a.call, b.call) || leavingIf(b.call, a.call) {
						excl = true
					}
				}
				break
			}
			if !excl {
				return false
			}
		}
	}
	return true
}
