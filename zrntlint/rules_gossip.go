package main

import (
	"fmt"
	"go/ast"
	"go/token"
	"go/types"
	"sort"
	"strings"

	"golang.org/x/tools/go/cfg"
	"golang.org/x/tools/go/packages"
)

func init() {
	register(&Rule{Name: "gossip.mark", Floor: 12,
		Doc: "in every gossip validator, after a Mark* call on the seen-cache only ACCEPT returns are reachable, and every ACCEPT return is cut off from the entry by the Mark* call of each Seen* key the function consults",
		Run: ruleGossipMark})
	register(&Rule{Name: "gossip.verdict", Floor: 80,
		Doc: "every refusal in a gossip validator carries the verdict class of the outcomes that govern it, read off the control-flow graph (the tests from which an edge reaches the returning block through non-branching blocks: nesting, early returns, else branches and switch cases give the same edges): timing/availability outcomes (seen, unknown block/parent/target, clock window, chain-view lookups) IGNORE and never REJECT; validity outcomes (bad signature, bad block, process_* condition, malformed bits/indices) REJECT and never IGNORE; and no test that decides whether an ACCEPT is reached leads on its other edge to another ACCEPT (messages accepted without the checks that follow)",
		Run: ruleGossipVerdict})
}

type gossipFn struct {
	pk *packages.Package
	fd *ast.FuncDecl
}

func gossipValidators(p *Prog) []gossipFn {
	pk := p.Pkg("eth2/gossipval")
	if pk == nil {
		anchorFail("package gossipval not loaded")
	}
	var out []gossipFn
	for _, f := range pk.Syntax {
		for _, d := range f.Decls {
			fd, ok := d.(*ast.FuncDecl)
			if !ok || fd.Body == nil || !strings.HasPrefix(fd.Name.Name, "Validate") || fd.Type.Results == nil {
				continue
			}
			returnsVerdict := false
			for _, r := range fd.Type.Results.List {
				if nt := namedOf(pk.TypesInfo.TypeOf(r.Type)); nt != nil && nt.Obj().Name() == "GossipValidatorResult" {
					returnsVerdict = true
				}
			}
			if returnsVerdict {
				out = append(out, gossipFn{pk, fd})
			}
		}
	}
	if len(out) < 8 {
		anchorFail("only %d gossip validators found", len(out))
	}
	sort.Slice(out, func(i, j int) bool { return out[i].fd.Name.Name < out[j].fd.Name.Name })
	return out
}

// verdictOf extracts the verdict constant name of a return statement ("" if none).
func verdictOf(info *types.Info, r *ast.ReturnStmt) string {
	for _, e := range r.Results {
		cl, ok := ast.Unparen(e).(*ast.CompositeLit)
		if !ok {
			// the whole result carried in a variable (a named result filled in field by field)
			if id, isVar := ast.Unparen(e).(*ast.Ident); isVar {
				if _, ok := info.ObjectOf(id).(*types.Var); ok {
					if nt := namedOf(info.TypeOf(e)); nt != nil && nt.Obj().Name() == "GossipValidatorResult" {
						return "?"
					}
				}
			}
			continue
		}
		if nt := namedOf(info.TypeOf(cl)); nt == nil || nt.Obj().Name() != "GossipValidatorResult" || len(cl.Elts) == 0 {
			continue
		}
		v := cl.Elts[0]
		if kv, ok := v.(*ast.KeyValueExpr); ok {
			v = kv.Value
		}
		if id, ok := ast.Unparen(v).(*ast.Ident); ok {
			// a verdict carried in a variable (verdict := IGNORE; …; verdict = REJECT; …) is not one verdict
			if _, isConst := info.ObjectOf(id).(*types.Const); !isConst {
				return "?"
			}
			return id.Name
		}
		if sel, ok := ast.Unparen(v).(*ast.SelectorExpr); ok {
			return sel.Sel.Name
		}
	}
	return ""
}

func ruleGossipMark(c *Ctx) {
	for _, g := range gossipValidators(c.P) {
		info := g.pk.TypesInfo
		fn := g.fd.Name.Name
		gr := cfg.New(g.fd.Body, func(*ast.CallExpr) bool { return true })
		// locate calls and returns per block
		type at struct {
			blk *cfg.Block
			idx int
		}
		marks := map[string][]at{} // MarkX -> locations
		seens := map[string]bool{}
		var markCalls []*ast.CallExpr
		markLoc := map[*ast.CallExpr]at{}
		type ret struct {
			r   *ast.ReturnStmt
			loc at
		}
		var rets []ret
		for _, b := range gr.Blocks {
			for i, n := range b.Nodes {
				if r, ok := n.(*ast.ReturnStmt); ok {
					rets = append(rets, ret{r, at{b, i}})
				}
				ast.Inspect(n, func(m ast.Node) bool {
					if _, ok := m.(*ast.FuncLit); ok {
						return false
					}
					call, ok := m.(*ast.CallExpr)
					if !ok {
						return true
					}
					sel, ok := call.Fun.(*ast.SelectorExpr)
					if !ok {
						return true
					}
					if _, isI := info.TypeOf(sel.X).Underlying().(*types.Interface); !isI {
						return true
					}
					if strings.HasPrefix(sel.Sel.Name, "Mark") {
						marks[sel.Sel.Name] = append(marks[sel.Sel.Name], at{b, i})
						markCalls = append(markCalls, call)
						markLoc[call] = at{b, i}
					}
					if strings.HasPrefix(sel.Sel.Name, "Seen") {
						seens[strings.TrimPrefix(sel.Sel.Name, "Seen")] = true
					}
					return true
				})
			}
		}
		reach := func(from *cfg.Block, skip map[*cfg.Block]bool) map[*cfg.Block]bool {
			seen := map[*cfg.Block]bool{}
			var walk func(b *cfg.Block)
			walk = func(b *cfg.Block) {
				if seen[b] || skip[b] {
					return
				}
				seen[b] = true
				for _, s := range b.Succs {
					walk(s)
				}
			}
			walk(from)
			return seen
		}
		// (1) after a mark only ACCEPT
		for _, mc := range markCalls {
			loc := markLoc[mc]
			name := mc.Fun.(*ast.SelectorExpr).Sel.Name
			key := fn + "." + name + ".after"
			// successors
			succSeen := map[*cfg.Block]bool{}
			for _, s := range loc.blk.Succs {
				for b := range reach(s, nil) {
					succSeen[b] = true
				}
			}
			var bad *ast.ReturnStmt
			for _, r := range rets {
				after := succSeen[r.loc.blk] || (r.loc.blk == loc.blk && r.loc.idx > loc.idx)
				if after && verdictOf(info, r.r) != "ACCEPT" && bad == nil {
					bad = r.r
				}
			}
			if bad != nil && verdictOf(info, bad) == "?" {
				c.unm(key, mc.Pos(), "%s is followed by a return whose verdict is carried in a variable (%s): which verdicts can follow the mark is not read", name, c.P.rel(bad.Pos()))
			} else if bad != nil {
				c.bad(key, mc.Pos(), "%s marks the seen-cache and the validator can still return %s afterwards (%s): a refused message suppresses its own later redelivery", name, verdictOf(info, bad), c.P.rel(bad.Pos()))
			} else {
				c.ok(key, mc.Pos(), "only ACCEPT is reachable after the mark")
			}
		}
		// (1b) the key marked is the key that was looked up
		{
			defs := singleDefs(info, g.fd.Body)
			resolveArgs := func(call *ast.CallExpr) string {
				var parts []string
				for _, a := range call.Args {
					e := ast.Unparen(a)
					if id, ok := e.(*ast.Ident); ok {
						if d, ok := defs[info.Uses[id]]; ok && d.n == 1 {
							e = d.rhs
						}
					}
					parts = append(parts, strings.ReplaceAll(types.ExprString(e), " ", ""))
				}
				return strings.Join(parts, ", ")
			}
			seenArgs := map[string]string{}
			ast.Inspect(g.fd.Body, func(m ast.Node) bool {
				if call, ok := m.(*ast.CallExpr); ok {
					if sel, ok := call.Fun.(*ast.SelectorExpr); ok && strings.HasPrefix(sel.Sel.Name, "Seen") {
						if _, isI := info.TypeOf(sel.X).Underlying().(*types.Interface); isI {
							seenArgs[strings.TrimPrefix(sel.Sel.Name, "Seen")] = resolveArgs(call)
						}
					}
				}
				return true
			})
			for _, mc := range markCalls {
				name := strings.TrimPrefix(mc.Fun.(*ast.SelectorExpr).Sel.Name, "Mark")
				sa, ok := seenArgs[name]
				if !ok {
					continue
				}
				key := fn + ".Mark" + name + ".key"
				if ma := resolveArgs(mc); ma != sa {
					c.bad(key, mc.Pos(), "the seen-cache is consulted with (%s) but marked with (%s): the duplicate check can never match what was recorded", sa, ma)
				} else {
					c.ok(key, mc.Pos(), "looked up and marked with the same key (%s)", sa)
				}
			}
		}
		// (2) every ACCEPT is cut by the Mark of each Seen key
		for _, k := range sortedKeys(seens) {
			mname := "Mark" + k
			key := fn + ".Seen" + k + ".marked"
			locs := marks[mname]
			if len(locs) == 0 {
				c.bad(key, g.fd.Pos(), "%s consults Seen%s but never calls %s: duplicates are never recorded", fn, k, mname)
				continue
			}
			skip := map[*cfg.Block]bool{}
			for _, l := range locs {
				skip[l.blk] = true
			}
			live := reach(gr.Blocks[0], skip)
			var bad *ast.ReturnStmt
			for _, r := range rets {
				if verdictOf(info, r.r) == "ACCEPT" && live[r.loc.blk] {
					bad = r.r
				}
			}
			if bad != nil {
				c.bad(key, bad.Pos(), "an ACCEPT return is reachable without passing %s", mname)
			} else {
				c.ok(key, g.fd.Pos(), "every ACCEPT passes %s", mname)
			}
		}
	}
}

// outcome classes
const (
	clsTiming   = "timing"   // IGNORE only
	clsValidity = "validity" // REJECT only
	clsInternal = "internal" // IGNORE or REJECT, never ACCEPT
)

// verdictTable: resolved callee name (+ which result is tested) -> class. Transcribed from the phase0/altair p2p-interface
// documents' [IGNORE]/[REJECT] tags, read validator by validator against this code base.
var verdictTable = map[string]string{
	// timing / availability: an honest sender can fail these through timing alone
	"Seen*":                    clsTiming,
	"ByBlock":                  clsTiming,
	"ByBlockSlot":              clsTiming,
	"BySlot":                   clsTiming,
	"ByStateRoot":              clsTiming,
	"CheckSlotSpan":            clsTiming,
	"SlotAfter":                clsTiming,
	"InSubtree.unknown":        clsTiming,
	"Towards":                  clsTiming,
	"EpochsContext":            clsTiming,
	"State":                    clsTiming,
	"Head":                     clsTiming,
	"HeadRef":                  clsTiming,
	"AttesterSlashableAllSeen": clsTiming,
	// validity: only a faulty or malicious sender fails these
	"Verify":                                clsValidity,
	"FastAggregateVerify":                   clsValidity,
	"Eth2FastAggregateVerify":               clsValidity,
	"AggregateVerify":                       clsValidity,
	"VerifySignature":                       clsValidity,
	"IsBadBlock":                            clsValidity,
	"ConvertToIndexed":                      clsValidity,
	"ValidateIndexedAttestation":            clsValidity,
	"ValidateVoluntaryExit":                 clsValidity,
	"ValidateProposerSlashing":              clsValidity,
	"ValidateProposerSlashingNoSignature":   clsValidity,
	"ValidateAttesterSlashing":              clsValidity,
	"ValidateAttesterSlashingNoSignature":   clsValidity,
	"ValidateAggregateSelectionProof.valid": clsValidity,
	"IsSyncCommitteeAggregator":             clsValidity,
	"IsSlashableAttestationData":            clsValidity,
	"ValidateIndexedAttestationIndicesSet":  clsValidity,
	"ValidateSyncAggregatorSelectionProof":  clsValidity,
	"InSubnet":                              clsValidity,
	"Signature":                             clsValidity, // decoding the message's own signature bytes
	"OnesCount":                             clsValidity,
	"BitLen":                                clsValidity,
	"SingleParticipant":                     clsValidity,
	"ComputeSubnetForAttestation":           clsValidity,
	"ComputeSubnetsForSyncCommittee":        clsValidity,
	// internal lookups after the message's own fields were validated: the p2p spec is silent; either refusal
	"InSubtree.in":                        clsInternal,
	"GetBeaconCommittee":                  clsInternal,
	"GetCommitteeCountPerSlot":            clsInternal,
	"GetBeaconProposer":                   clsInternal,
	"Pubkey":                              clsInternal,
	"GetDomain":                           clsInternal,
	"ValidateAggregateSelectionProof.err": clsInternal,
	"EpochStartSlot":                      clsInternal,
	"HeadInfo":                            clsInternal,
	"Subcommittee":                        clsInternal,
	"Validators":                          clsInternal,
	"Validator":                           clsInternal,
	"Slashed":                             clsInternal,
	"CurrentSyncCommittee":                clsInternal,
	"NextSyncCommittee":                   clsInternal,
}

func lookupVerdictClass(name string) (string, bool) {
	if c, ok := verdictTable[name]; ok {
		return c, true
	}
	if strings.HasPrefix(name, "Seen") {
		return clsTiming, true
	}
	return "", false
}

func ruleGossipVerdict(c *Ctx) {
	unclassified := 0
	for _, g := range gossipValidators(c.P) {
		info := g.pk.TypesInfo
		fn := g.fd.Name.Name
		parents := parentMap(g.fd.Body)
		// all assignments by position, for "last definition before"
		type def struct {
			pos   token.Pos
			obj   types.Object
			call  *ast.CallExpr
			index int // which LHS position
			n     int
		}
		var defs []def
		ast.Inspect(g.fd.Body, func(n ast.Node) bool {
			as, ok := n.(*ast.AssignStmt)
			if !ok || len(as.Rhs) != 1 {
				return true
			}
			call, ok := ast.Unparen(as.Rhs[0]).(*ast.CallExpr)
			if !ok {
				return true
			}
			for i, l := range as.Lhs {
				if id, ok := l.(*ast.Ident); ok && id.Name != "_" {
					o := info.Defs[id]
					if o == nil {
						o = info.Uses[id]
					}
					if o != nil {
						defs = append(defs, def{as.Pos(), o, call, i, len(as.Lhs)})
					}
				}
			}
			return true
		})
		lastDef := func(o types.Object, before token.Pos) *def {
			var best *def
			for i := range defs {
				d := &defs[i]
				if d.obj == o && d.pos < before && (best == nil || d.pos > best.pos) {
					best = d
				}
			}
			return best
		}
		// classify a condition expression: returns the set of outcome names found
		var classify func(e ast.Expr, at token.Pos) []string
		classify = func(e ast.Expr, at token.Pos) []string {
			var out []string
			e = ast.Unparen(e)
			switch x := e.(type) {
			case *ast.BinaryExpr:
				if x.Op == token.LAND || x.Op == token.LOR {
					return append(classify(x.X, at), classify(x.Y, at)...)
				}
				out = append(out, classify(x.X, at)...)
				out = append(out, classify(x.Y, at)...)
				return out
			case *ast.UnaryExpr:
				return classify(x.X, at)
			case *ast.CallExpr:
				if isConversion(info, x) && len(x.Args) == 1 {
					return classify(x.Args[0], at)
				}
				name := calleeLabel(info, x)
				if id, ok := x.Fun.(*ast.Ident); ok && (id.Name == "len" || id.Name == "uint64") {
					return classify(x.Args[0], at)
				}
				return []string{name}
			case *ast.Ident:
				o := info.Uses[x]
				if o == nil {
					return nil
				}
				if d := lastDef(o, at); d != nil {
					name := calleeLabel(info, d.call)
					switch name {
					case "InSubtree":
						if d.index == 0 {
							return []string{"InSubtree.unknown"}
						}
						return []string{"InSubtree.in"}
					case "ValidateAggregateSelectionProof":
						if isErrorT(o.Type()) {
							return []string{name + ".err"}
						}
						return []string{name + ".valid"}
					}
					return []string{name}
				}
				return nil
			case *ast.SelectorExpr:
				return classify(x.X, at)
			case *ast.IndexExpr:
				return classify(x.X, at)
			}
			return nil
		}
		// Every verdict return is judged by the conditions that lead to it in the control-flow graph, not by the
		// statement it is nested in: the tests (blocks with two successors; go/cfg splits a && b and a || b into one
		// block per operand) from which an edge reaches the return's block through blocks that do not branch. An
		// early return, an inverted test with the refusal after the `if`, an else branch, a case of a switch all give
		// the same edges. ACCEPT must be dominated by every test that governs a refusal (no accepting path skips one).
		nret := 0
		gr := cfg.New(g.fd.Body, func(*ast.CallExpr) bool { return true })
		type vret struct {
			blk *cfg.Block
			r   *ast.ReturnStmt
			v   string
		}
		var rets []vret
		var varVerdict *ast.ReturnStmt
		for _, b := range gr.Blocks {
			if !b.Live || len(b.Nodes) == 0 {
				continue
			}
			if r, ok := b.Nodes[len(b.Nodes)-1].(*ast.ReturnStmt); ok {
				if v := verdictOf(info, r); v == "?" {
					varVerdict = r
				} else if v != "" {
					rets = append(rets, vret{b, r, v})
				}
			}
		}
		if varVerdict != nil {
			c.unm(fn+".verdict[variable]", varVerdict.Pos(), "%s returns a verdict carried in a variable that is set along the way: which outcome leads to which verdict is not read off such a return", fn)
		}
		preds := map[*cfg.Block][]*cfg.Block{}
		for _, b := range gr.Blocks {
			for _, sx := range b.Succs {
				preds[sx] = append(preds[sx], b)
			}
		}
		condOf := func(b *cfg.Block) ast.Expr {
			if len(b.Succs) != 2 || len(b.Nodes) == 0 {
				return nil
			}
			e, _ := b.Nodes[len(b.Nodes)-1].(ast.Expr)
			return e
		}
		// governing tests of a block: walk predecessors through non-branching blocks
		governors := func(target *cfg.Block) (govs []*cfg.Block, unconditional bool) {
			seen := map[*cfg.Block]bool{}
			var walk func(b *cfg.Block)
			walk = func(b *cfg.Block) {
				if seen[b] {
					return
				}
				seen[b] = true
				if b == gr.Blocks[0] && len(preds[b]) == 0 {
					unconditional = true
				}
				for _, p := range preds[b] {
					if !p.Live {
						continue
					}
					if condOf(p) != nil {
						dup := false
						for _, gq := range govs {
							if gq == p {
								dup = true
							}
						}
						if !dup {
							govs = append(govs, p)
						}
						continue
					}
					walk(p)
				}
			}
			walk(target)
			return
		}
		// dominators (iterative)
		dom := map[*cfg.Block]map[*cfg.Block]bool{}
		var live []*cfg.Block
		for _, b := range gr.Blocks {
			if b.Live {
				live = append(live, b)
			}
		}
		for _, b := range live {
			dom[b] = map[*cfg.Block]bool{}
			if b == gr.Blocks[0] {
				dom[b][b] = true
			} else {
				for _, x := range live {
					dom[b][x] = true
				}
			}
		}
		for changed := true; changed; {
			changed = false
			for _, b := range live {
				if b == gr.Blocks[0] {
					continue
				}
				nd := map[*cfg.Block]bool{}
				first := true
				for _, p := range preds[b] {
					if !p.Live {
						continue
					}
					if first {
						for x := range dom[p] {
							nd[x] = true
						}
						first = false
					} else {
						for x := range nd {
							if !dom[p][x] {
								delete(nd, x)
							}
						}
					}
				}
				nd[b] = true
				if len(nd) != len(dom[b]) {
					dom[b] = nd
					changed = true
				}
			}
		}
		refusalGovs := map[*cfg.Block]bool{}
		perFn := map[string]int{}
		sort.Slice(rets, func(i, j int) bool { return rets[i].r.Pos() < rets[j].r.Pos() })
		for _, vr := range rets {
			if vr.v == "ACCEPT" {
				continue
			}
			nret++
			govs, uncond := governors(vr.blk)
			if len(govs) == 0 || (uncond && len(govs) == 0) {
				c.bad(fn+".unconditional-"+vr.v, vr.r.Pos(), "unconditional %s return", vr.v)
				continue
			}
			var names []string
			var condTexts []string
			for _, gb := range govs {
				refusalGovs[gb] = true
				ce := condOf(gb)
				names = append(names, classify(ce, ce.Pos())...)
				condTexts = append(condTexts, truncate(types.ExprString(ce), 50))
			}
			// decide
			cls := ""
			var used string
			for _, nme := range names {
				if k, ok := lookupVerdictClass(nme); ok {
					// strongest constraint wins: timing/validity over internal
					if cls == "" || cls == clsInternal {
						cls = k
						used = nme
					}
				}
			}
			perFn[vr.v]++
			key := fmt.Sprintf("%s.%s[%s]", fn, vr.v, strings.Join(dedup(names), ","))
			v, r := vr.v, vr.r
			switch {
			case cls == "":
				unclassified++
				// comparisons of message fields / unclassified helpers: any refusal is acceptable, ACCEPT is not (handled below)
				c.ok(key, r.Pos(), "refusal governed by %s (no tabled outcome: either refusal class admitted)", strings.Join(condTexts, " / "))
			case cls == clsTiming && v != "IGNORE":
				c.bad(key, r.Pos(), "outcome %s is a timing/availability condition an honest sender can fail; the p2p spec tags it [IGNORE], the validator returns %s", used, v)
			case cls == clsValidity && v != "REJECT":
				c.bad(key, r.Pos(), "outcome %s is a validity condition; the p2p spec tags it [REJECT], the validator returns %s (an invalid message is not penalised and may be re-gossiped)", used, v)
			default:
				c.ok(key, r.Pos(), "%s -> %s (%s)", used, v, cls)
			}
		}
		// ACCEPT: a test that decides whether THIS accept is reached (exactly one of its two edges can lead to it) must
		// on its other edge lead to no accept at all — it is then a test whose failure refuses. A test whose other
		// edge goes on to another ACCEPT lets some messages be accepted without the checks that follow.
		canReach := func(from, to *cfg.Block) bool {
			seen := map[*cfg.Block]bool{}
			var walk func(b *cfg.Block) bool
			walk = func(b *cfg.Block) bool {
				if b == to {
					return true
				}
				if seen[b] {
					return false
				}
				seen[b] = true
				for _, sx := range b.Succs {
					if walk(sx) {
						return true
					}
				}
				return false
			}
			return walk(from)
		}
		var accepts []*cfg.Block
		for _, vr := range rets {
			if vr.v == "ACCEPT" {
				accepts = append(accepts, vr.blk)
			}
		}
		for _, vr := range rets {
			if vr.v != "ACCEPT" {
				continue
			}
			nret++
			key := fn + ".ACCEPT"
			var culprit ast.Expr
			for _, b := range live {
				ce := condOf(b)
				if ce == nil {
					continue
				}
				r0, r1 := canReach(b.Succs[0], vr.blk), canReach(b.Succs[1], vr.blk)
				if r0 == r1 {
					continue
				}
				other := b.Succs[0]
				if r0 {
					other = b.Succs[1]
				}
				for _, a := range accepts {
					if canReach(other, a) && (culprit == nil || ce.Pos() < culprit.Pos()) {
						culprit = ce
					}
				}
			}
			if culprit != nil {
				c.bad(key, vr.r.Pos(), "ACCEPT is returned from inside a branch / before the end of the validator: the test `%s` sends some messages to this ACCEPT and lets the others go on to further conditions, which the accepted ones skip", truncate(types.ExprString(culprit), 60))
			} else {
				c.ok(key, vr.r.Pos(), "every test that decides whether this ACCEPT is reached refuses on its other side")
			}
		}
		_ = dom
		_ = refusalGovs
		_ = parents
		c.stat("verdict_returns", nret)
	}
	c.stat("unclassified_conditions", unclassified)
}

func classifyArgsOnly(names []string) []string { return names }

func dedup(s []string) []string {
	seen := map[string]bool{}
	var out []string
	for _, x := range s {
		if !seen[x] {
			seen[x] = true
			out = append(out, x)
		}
	}
	return out
}

func condStr(ifs *ast.IfStmt, inElse bool) string {
	if inElse {
		return "else of " + truncate(types.ExprString(ifs.Cond), 50)
	}
	return truncate(types.ExprString(ifs.Cond), 60)
}
