#!/usr/bin/env python3
"""Generates /verif/MANIFEST.json from the table below (kept in one place so the manifest stays valid)."""
import json, subprocess, sys
CLAIMS = {
 # id: (technique, level text, level note, design_ref)
 "C14": ("AST/type-resolved registry cross-check (fork if-chains, decoder/allocator/upgrade tables) + frozen spec constant table",
         "Structural: every fork-indexed construct (version chain, digest chain, decoder, allocator, envelope conversion, upgrade dispatch, Fork literal of each upgrade) names the same fork for the same epoch interval; exhaustive over the loaded program. Decides the fork-lookup agreement clause for every epoch ordering because the chains are compared symbolically, not on sampled epochs.",
         "Trusts Go type checker, x/tools, and the fork order read from common.Config's field order; BLS rejection of foreign-version signatures is not decided.",
         "DESIGN.md §3 D1-D3, §4 C14"),
}
CLAIMS.update({
 "C04": ("symbolic SSZ shape/size evaluator over method bodies and view descriptors (sibling-agreement of hand-repeated field lists, limits as polynomials over spec constants)",
         "Structural: for all ~150 SSZ types, the hand-repeated field lists, collection bounds, element sizes and declared Fixed/ByteLength are mutually consistent and equal to the view-form schema; decided symbolically in the spec constants, hence for every preset. Necessary conditions of round-tripping and length agreement; not value-level equality.",
         "Trusts ztyp's codec and the Go type checker; JSON/YAML clause not decided.",
         "DESIGN.md §3 A1-A5,A10, §4 C04"),
 "C05": ("symbolic SSZ shape comparison struct-form vs view descriptor + positional constructor tracing",
         "Structural: struct-form HashTreeRoot, codec methods and tree-view descriptors describe the same schema (kinds, widths, limits, field order) for every type, and struct->view / upgrade constructors put each value at its own position. Necessary conditions of root agreement across forms.",
         "Trusts ztyp merkleization and caching; leaf byte-array hashers are hand-written and only size-checked.",
         "DESIGN.md §3 A1-A3,A7,A8, §4 C05"),
 "C15": ("type-resolved index/descriptor agreement analysis of all view accessors (constant indices, wrapper shape, iota blocks, name-contradiction, Raw() witnesses)",
         "Structural: every hand-numbered index in every view accessor addresses the field its wrapper and name claim, in all six fork states and all sub-views; exhaustive over 450 sites. Necessary condition of accessor exactness; copy independence relies on ztyp (trusted) and on the epc rules under C08.",
         "Trusts ztyp view semantics and the X/XType/XView naming convention (checked by instance floors).",
         "DESIGN.md §3 A6-A9, §4 C15"),
})
NA = {
}
ALL = ["C%02d" % i for i in range(1, 21)]
PENDING_REASON = "check not built yet in this round (planned rules: DESIGN.md §4); not claimed until its rules exist and are silent/triaged on the unchanged tree"
def main():
    checks = []
    for pid in ALL:
        if pid in CLAIMS:
            tech, text, note, ref = CLAIMS[pid]
            checks.append({
                "property_id": pid,
                "quick_cmd": "./check %s quick" % pid,
                "thorough_cmd": "./check %s thorough" % pid,
                "evidence_file": "/verif/evidence/%s.json" % pid,
                "replay_cmd_template": "./check %s quick  # re-analyses /repo; violations are listed in {path}" % pid,
                "engine": "zrntlint",
                "level_claimed": {"category": "other", "text": text, "design_ref": ref},
                "level_note": note,
                "technique": "static analysis: " + tech,
            })
    na = []
    for pid in ALL:
        if pid in CLAIMS: continue
        na.append({"property_id": pid, "reason": NA.get(pid, PENDING_REASON)})
    m = {
        "version": 1,
        "setup_cmd": "cd /verif/zrntlint && GOFLAGS=-mod=mod GOPROXY=off GOSUMDB=off GOTOOLCHAIN=local GOWORK=off go build -o /verif/bin/zrntlint .",
        "hooks": {
            "guard": "verif",
            "enable": "none needed: the analyser reads /repo's sources as data (go/packages); no instrumentation exists, so no build tag is ever set",
            "baseline_off_cmd": "cd /repo && GOFLAGS=-mod=mod GOPROXY=off GOSUMDB=off go test -vet=off -count=1 -timeout 25m ./...",
            "source_commits": [],
            "add_only": True,
        },
        "engines": [{
            "name": "zrntlint",
            "path": "/verif/zrntlint",
            "serves_properties": sorted(CLAIMS),
            "kind_free_text": "repository-specific static analyser (Go; go/packages + go/types + go/cfg + go/ssa + VTA call graph, yaml.v3 for embedded configs); loads /repo as data on every run, never executes it",
        }],
        "checks": checks,
        "not_applicable": na,
        "notes": "All claims are at level 'other': structural necessary conditions decided exhaustively over the loaded program (see DESIGN.md). `fix:` commits in /repo and recorded findings are in /verif/known_findings.json.",
    }
    json.dump(m, open("/verif/MANIFEST.json", "w"), indent=1)
    print("wrote MANIFEST.json: %d checks, %d not_applicable" % (len(checks), len(na)))
main()
