#!/usr/bin/env python3
"""Generates /verif/MANIFEST.json from the table below (kept in one place so the manifest stays valid)."""
import json, subprocess, sys
CLAIMS = {
 # id: (technique, level text, level note, design_ref)
 "C14": ("AST/type-resolved registry cross-check (fork if-chains, decoder/allocator/upgrade tables) + frozen spec constant table",
         "Structural: every fork-indexed construct (version chain, digest chain, decoder, allocator, envelope conversion, upgrade dispatch, Fork literal of each upgrade) names the same fork for the same epoch interval; exhaustive over the loaded program. Decides the fork-lookup agreement clause for every epoch ordering because the chains are compared symbolically, not on sampled epochs.",
         "Trusts Go type checker, x/tools, and the fork order read from common.Config's field order; BLS rejection of foreign-version signatures is not decided.",
         "DESIGN.md §3 D1-D3, §4 C14"),
}
CLAIMS.update({
 "C04": ("symbolic SSZ shape/size evaluator over method bodies and view descriptors (sibling-agreement of hand-repeated field lists, limits as polynomials over spec constants)",
         "Structural: for all ~150 SSZ types, the hand-repeated field lists, collection bounds, element sizes and declared Fixed/ByteLength are mutually consistent and equal to the view-form schema; decided symbolically in the spec constants, hence for every preset. Necessary conditions of round-tripping and length agreement; not value-level equality.",
         "Trusts ztyp's codec and the Go type checker; JSON/YAML clause not decided.",
         "DESIGN.md §3 A1-A5,A10, §4 C04"),
 "C05": ("symbolic SSZ shape comparison struct-form vs view descriptor + positional constructor tracing",
         "Structural: struct-form HashTreeRoot, codec methods and tree-view descriptors describe the same schema (kinds, widths, limits, field order) for every type, and struct->view / upgrade constructors put each value at its own position. Necessary conditions of root agreement across forms.",
         "Trusts ztyp merkleization and caching; leaf byte-array hashers are hand-written and only size-checked.",
         "DESIGN.md §3 A1-A3,A7,A8, §4 C05"),
 "C15": ("type-resolved index/descriptor agreement analysis of all view accessors (constant indices, wrapper shape, iota blocks, name-contradiction, Raw() witnesses)",
         "Structural: every hand-numbered index in every view accessor addresses the field its wrapper and name claim, in all six fork states and all sub-views; exhaustive over 450 sites. Necessary condition of accessor exactness; copy independence relies on ztyp (trusted) and on the epc rules under C08.",
         "Trusts ztyp view semantics and the X/XType/XView naming convention (checked by instance floors).",
         "DESIGN.md §3 A6-A9, §4 C15"),
})
CLAIMS.update({
 "C09": ("index-unit (absolute vs window-relative) analysis of proto-array + permuted-argument + lockset analysis",
         "Structural: all node addressing in the proto-array and the wrapper's locking/argument passing are consistent; necessary for head computation to touch the intended nodes before and after pruning. Does not decide GHOST optimality.",
         "Trusts the NodeIndex type as the absolute unit; the LMD-GHOST selection rule itself is not decided.", "DESIGN.md §3 E1,D4,E2,E3; §4 C09"),
 "C10": ("lockset re-entrancy analysis + OnPrune bookkeeping/shape rules + permuted-argument check",
         "Structural: UpdateJustified cannot self-deadlock (no same-receiver re-acquisition on any path), passes checkpoints in order, and OnPrune's per-node bookkeeping is complete and position-correct. Necessary conditions of 'terminates' and 'each pruned once'.",
         "Prune set = insertion-order prefix (recorded design finding) is not judged against 'exactly the non-descendants'.", "DESIGN.md §3 E3,D4,E1; §4 C10"),
 "C11": ("index-unit analysis of query paths + bounds-guard shape",
         "Structural: every graph query reaches nodes through guarded, offset-corrected positions. Necessary for query results to refer to the inserted tree after pruning.",
         "Agreement with a reference walk is not decided; the bounds/ancestor comparisons listed in cmp_table.go are (cmp.spec).", "DESIGN.md §3 E1,B2a; §4 C11"),
 "C16": ("delegation-filter and recursion-progress analysis of PubkeyCache",
         "Structural: parent delegation is confined to the trusted prefix, recursion makes progress on a fresh child, outcomes (no-op/append/fork/error) are all present, deposit processing guards hits. Necessary conditions of per-history exactness and termination.",
         "Exactness over arbitrary fork trees is not decided; index units (absolute vs position, cache.units) and the tabled boundary comparisons (cmp.spec) are.", "DESIGN.md §3 E6,E7; §4 C16"),
 "C17": ("CFG lockset dataflow (must/may-held), same-receiver call-graph re-entrancy, check-then-act and lazy-init shape rules",
         "Structural: classical lock-discipline analysis over every mutex-carrying type in the module; decides absence of unlocked access, lock leaks and self-deadlock on all paths (not schedules sampled).",
         "Field-level aliasing beyond the receiver is not tracked; linearizability is not decided. Two genuine findings (check-then-act in PubkeyCache.AddValidator, unsynchronised lazy decompression in CachedPubkey) were first recorded and later repaired by fix: commits; none is open.", "DESIGN.md §3 E2-E5; §4 C17"),
 "C20": ("constructor/map-initialisation, nil-lookup and lockset rules on the pool package",
         "Structural: pools cannot panic on a nil map or nil lookup and hold their lock around index access. Necessary conditions of 'never panics'.",
         "Content-level pool invariants are not decided beyond the key agreement of the per-validator maps (pool.keys) and the tabled length guards (cmp.spec).", "DESIGN.md §3 B3,B2b,E2; §4 C20"),
})
CLAIMS.update({
 "C01": ("CFG must-pass-through (vertex-cut) analysis of per-fork block pipelines against frozen spec stage tables, plus error-flow, argument-order, limit and view-shape rules on the block path",
         "Structural: the composition of the block transition (which sub-transitions, which fork variant, dependent order, error propagation, signature-before/root-after) is the spec's for every fork; exhaustive over paths of the pipeline functions. Necessary conditions of spec equality, not arithmetic equality.",
         "Stage tables, the comparison table (cmp.spec, 236 entries) and the formula table (formula.spec, 206 entries) are transcribed/reviewed against consensus-specs v1.5.0-beta.2; comparisons and assignments outside those tables, and the numeric range of every quantity, are not decided.", "DESIGN.md §3 C1-C3,B1,B7,C7,C10; §9"),
 "C02": ("CFG ordering analysis of the slot loop and per-fork epoch pipelines + upgrade carry-over tracing",
         "Structural: slot loop order, epoch stage sets/variants/dependent order, upgrade dispatch and field carry-over are the spec's on every path. Necessary conditions; epoch arithmetic is not decided.",
         "Stage, comparison and formula tables transcribed/reviewed against the spec; arithmetic outside the 174 tabled assignments and overflow behaviour are not decided.", "DESIGN.md §3 C1,C3,C7,A8,D2"),
 "C03": ("error-flow analysis over all error-returning call sites + BLS domain/object tracing + panic-shape rules",
         "Structural: no check's failure can be dropped on the way to the caller, every signature check is complete and domain-separated per the spec's table, and the exact panic shapes are absent; exhaustive over ~2900 call sites and 17 verification sites.",
         "Boundary comparisons are decided only for the 116 entries of the reviewed table (cmp.spec: operands, operator, offset); other comparisons are not; guarded explicit panics are listed, not judged.", "DESIGN.md §3 B1,B2,B4,B7,B8"),
 "C06": ("write-shape analysis of the list shuffle (swap-only) + direction wiring + mirrored-loop sibling agreement",
         "Structural: decides the 'always a permutation' clause by construction (only swaps) and the forward/inverse wiring; the spec-equality and mutual-inverse clauses are numeric and not decided.",
         "Hash-bit selection arithmetic is not decided.", "DESIGN.md §4 C06"),
 "C07": ("symbolic slice-bound analysis of committee construction + sibling agreement of samplers + seed-domain table",
         "Structural: decides the partition clause symbolically (start/end polynomials, full product loops) and the sampling/seed wiring; equality with the spec's assignment is numeric and not decided.",
         "Relies on shuffle.perm for the permutation premise.", "DESIGN.md §4 C07"),
 "C08": ("field-write coverage analysis (from-scratch vs incremental) + shared-structure write analysis + upkeep ordering",
         "Structural: any context field filled from scratch but not refreshed incrementally, or any shared sub-structure written after construction, is reported; necessary conditions of context/state agreement along histories.",
         "Value equality along histories not decided.", "DESIGN.md §3 C4-C6"),
 "C12": ("CFG reachability of marks vs verdict returns + outcome-class table for all 108 verdict returns + BLS tracing",
         "Structural: seen-caches are marked only on ACCEPT, each refusal has the verdict class the p2p spec assigns to its governing outcome, signatures are complete and domain-correct. Necessary conditions of verdict correctness.",
         "Outcome-class table transcribed from the phase0/altair p2p documents; completeness of condition lists not decided.", "DESIGN.md §3 B5,B6,B4"),
 "C13": ("CFG must-pass-through and argument-shape analysis of GenesisFromEth1 against the spec's initialisation steps",
         "Structural: every initialisation step of the spec is on every success path with the spec's arguments and order. Necessary conditions of genesis equality.",
         "Field-for-field equality for all deposit lists not decided.", "DESIGN.md §3 C8"),
 "C18": ("per-poll and per-engine-call consumption analysis + error-flow over the transition call sites",
         "Structural: every cancellation poll and every engine answer provably becomes an error return, and no frame above drops it; exhaustive over the 36 polls and the engine call sites of three forks.",
         "The 'identical when undisturbed' clause is only checked structurally (polls are side-effect free).", "DESIGN.md §3 C9,C10,B1"),
})
CLAIMS.update({
 "C19": ("template and guard-shape rules for the numeric helpers + canonical-polynomial comparison of the conversion/churn/committee formulas with the spec's",
         "Structural: the integer square root has the spec's UINT64_MAX special case ahead of its first estimate and is the spec's Newton iteration; the power-of-two helpers, the Merkle fold (levels, side selection, final comparison) and the wrap-around tests of the helpers that have an error result have the required shape; slot/epoch/time, churn and committee-count formulas equal the spec's in canonical form. Necessary conditions of exactness; one genuine defect (divide by zero at 2^64-1) was found this way and repaired.",
         "Convergence/exactness of the iteration over all 2^64 inputs, wrap-around in helpers without an error result, and the exact acceptance set of the Merkle verifier are numeric facts and are not decided.",
         "DESIGN.md §10.9"),
})
NA = {}
ALL = ["C%02d" % i for i in range(1, 21)]
PENDING_REASON = "check not built yet in this round (planned rules: DESIGN.md §4); not claimed until its rules exist and are silent/triaged on the unchanged tree"
def main():
    checks = []
    for pid in ALL:
        if pid in CLAIMS:
            tech, text, note, ref = CLAIMS[pid]
            checks.append({
                "property_id": pid,
                "quick_cmd": "./check %s quick" % pid,
                "thorough_cmd": "./check %s thorough" % pid,
                "evidence_file": "/verif/evidence/%s.json" % pid,
                "replay_cmd_template": "./check %s quick  # re-analyses /repo; violations are listed in {path}" % pid,
                "engine": "zrntlint",
                "level_claimed": {"category": "other", "text": text, "design_ref": ref},
                "level_note": note,
                "technique": "static analysis: " + tech,
            })
    na = []
    for pid in ALL:
        if pid in CLAIMS: continue
        na.append({"property_id": pid, "reason": NA.get(pid, PENDING_REASON)})
    m = {
        "version": 1,
        "setup_cmd": "cd /verif/zrntlint && GOFLAGS=-mod=mod GOPROXY=off GOSUMDB=off GOTOOLCHAIN=local GOWORK=off go build -o /verif/bin/zrntlint .",
        "hooks": {
            "guard": "verif",
            "enable": "none needed: the analyser reads /repo's sources as data (go/packages); no instrumentation exists, so no build tag is ever set",
            "baseline_off_cmd": "cd /repo && GOFLAGS=-mod=mod GOPROXY=off GOSUMDB=off go test -vet=off -count=1 -timeout 25m ./...",
            "source_commits": [],
            "add_only": True,
        },
        "engines": [{
            "name": "zrntlint",
            "path": "/verif/zrntlint",
            "serves_properties": sorted(CLAIMS),
            "kind_free_text": "repository-specific static analyser (Go; go/packages + go/types + go/cfg, yaml.v3 for embedded configs); loads /repo as data on every run, never executes it",
        }],
        "checks": checks,
        "not_applicable": na,
        "notes": "All claims are at level 'other': structural necessary conditions decided exhaustively over the loaded program (see DESIGN.md). `fix:` commits in /repo and recorded findings are in /verif/known_findings.json.",
    }
    json.dump(m, open("/verif/MANIFEST.json", "w"), indent=1)
    print("wrote MANIFEST.json: %d checks, %d not_applicable" % (len(checks), len(na)))
main()
